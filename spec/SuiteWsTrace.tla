---------------------------- MODULE SuiteWsTrace ----------------------------
(* G02 - judge for the WebSocket sessions falcon's own test suite opens (sibling of SuiteTrace / G01).

   engine/suite_recorder_ws.py records, for every websocket scope any test of /repo/tests hands to
   falcon.asgi.App: every event the app obtained from the server's receive() and every event it passed
   to send() (in program order, with the server's answer: taken / raised), the routing decision, where
   the responder was entered / returned / raised, which exception reached the framework and which
   handler it found, the HTTP status falcon turned into a close code, the framework's own error close,
   how the app callable ended, the spec version of the scope and ws_options.  checks/g02.py projects a
   record onto the vocabulary of WebSocket.tla (it decides nothing) and this module judges it.  Every
   session is one initial state; the items are consumed one per step.

   Nothing is re-specified here.  The module EXTENDS WebSocket (the C17 specification) and asks ITS
   operators, unchanged:

     MonStep              the server-side legality automaton `mon` over the events handed to send():
                          AtMostOneAccept, DataOnlyBetweenAcceptAndClose, AtMostOneClose, NothingAfterClose,
                          NothingAfterLost  (verdict "P:" \o the automaton's bad state)
     DoAccept / DoClose / DoSend   what the specification does for a call with these arguments in this
                          state: the replayed WebSocket record `w` is advanced with THEIR result, and a send
                          the specification does not make there is named (accept headers on spec 2.0, a
                          subprotocol that is not a string, sec-websocket-protocol among the headers:
                          P:accept-args; a reserved close code: P:close-code-invalid; a payload of the wrong
                          type: P:payload-type)
     CloseEv              close reason only on spec versions that allow it (P:close-reason-version)
     CloseAlwaysSent      the invariant itself, evaluated on the replayed state when the app callable ended
     Handle / Cleanup / ReturnResult / AbandonedHandshakeClose / Invalid
                          the close the framework owes at each recorded decision point:
                            route miss -> Handle(w, "http", 404, ..)           P:map-3404
                            no on_websocket -> Handle(w, "http", 405, ..)      P:map-3405
                            HTTPError / HTTPStatus -> Handle(w, "http", s, ..) P:map-http-status
                            other exception, default handler -> Handle(w, "py" | "wsd", ..) = Cleanup with the
                            configured error code and its 3011 fallback        P:map-error-code
                            responder returned -> ReturnResult                 P:final-close
                            first event is not websocket.connect -> AbandonedHandshakeClose (D-clause, as in C17)
                          compared with the sends that FOLLOW the decision point in the record (look-ahead).

   One reading is made explicit (operator Move): the suite's simulated server polices the protocol - it
   raises on an event sent after close or before accept.  The refusal is the server's reaction; the attempt is
   the application's move.  Where the specification makes no send at all (Do*.evs = <<>>) the observed attempt is
   therefore put to the automaton as made (ok = TRUE); where the specification does send, the server's answer is
   passed on as recorded (a refusal is then a fault in the sense of C17: first news of a lost connection etc.).

   Expressible.  Sessions the tests drive outside the property on purpose are SKIPPED - counted under the reason,
   never accepted.  The reasons are facts the recorder observed, never the outcome of a clause:

     whole session (SessionSkip)
       unsupported-scope         the app callable raised falcon's UnsupportedScopeError / UnsupportedError before it
                                 asked for the first event (spec / http version falcon does not support: tests of
                                 the scope validation)
       abandoned                 the app callable did not end by itself: it was still pending when the test session
                                 ended, or it was cancelled / finalised from outside (it ended with a BaseException
                                 that is no Exception: CancelledError, GeneratorExit)
       framework-patched         the test replaced a method of falcon.asgi.WebSocket (monkeypatch), at the start or
                                 by the end of the session: what ran is not falcon's code
       handlers-removed          an exception reached the framework and NO handler was registered for it: only
                                 possible after the test emptied app._error_handlers; it escapes by design
       error-close-code-not-int  ws_options.error_close_code is not an int (outside the quantifier: configurations)
       spec-version              the scope's spec version is not 2.x
     mapping part only (MSkip)
       error-code-vocabulary     ws_options.error_close_code <= 0: WebSocket.tla writes "no argument" as 0
       custom-handler            the exception was taken by a handler of the test's own which closed (or not) by
                                 itself: no decision point of the framework follows
       abandoned-handshake       the first event was not websocket.connect: the close owed is judged as model detail
                                 (D:abandoned-handshake), as C17 does
       no-decision-point         nothing of the above was recorded
     An exception that escapes the app callable for any other reason is NOT skipped: CloseAlwaysSent is evaluated
     with esc = "a close attempt was refused by the server" exactly as in C17. *)
EXTENDS WebSocket, Json, IOUtils

Traces == JsonDeserialize(IOEnv.TRACE_FILE)

VARIABLES tid, l,
          vl,      \* legality part: "ok" | "skip/<reason>" | first failing P-clause
          vm,      \* mapping part: "ok" | first failing P-clause
          sm,      \* mapping part: first skip reason, "" if none
          nm,      \* decision points judged
          vd       \* first D-clause (model detail) mismatch, "ok" if none
tvars == <<vars, tid, l, vl, vm, sm, nm, vd>>

T  == Traces[tid]
It == T.ev[l]

-----------------------------------------------------------------------------
(* Expressible *)
HasItem(P(_)) == \E i \in 1..Len(T.ev) : P(T.ev[i])
NoHandler(i)  == i.d = "hx" /\ i.hk = "none"

SessionSkip ==
    IF T.x.unsupported /\ Len(T.ev) = 1 THEN "unsupported-scope"
    ELSE IF T.x.unfinished \/ T.x.cancelled THEN "abandoned"
    ELSE IF T.x.patched THEN "framework-patched"
    ELSE IF HasItem(NoHandler) THEN "handlers-removed"
    ELSE IF T.x.ecnotint THEN "error-close-code-not-int"
    ELSE IF T.ver \notin 20..29 THEN "spec-version"
    ELSE ""
Expressible == SessionSkip = ""
EcInVocabulary == T.ec > 0

-----------------------------------------------------------------------------
(* observed items as the specification's records *)
Obs(e)    == E(e.t, e.code, e.rs, e.k, e.v, e.sp, e.hd, e.ok)
FaultAt(e) == IF e.ok THEN "none" ELSE e.f
SendOp(e) == IF e.k = "text" THEN "send_text" ELSE "send_data"

SpecOf(e, x) ==
    CASE e.t = "accept" -> DoAccept(x, e.sp, e.hd, FaultAt(e))
      [] e.t = "close"  -> DoClose(x, e.code, e.rs, FaultAt(e))
      [] e.t = "send"   -> DoSend(x, SendOp(e), e.k, e.v, FaultAt(e))
      [] OTHER          -> R(x, "other", 0, <<>>, "P")

(* the application's move, see the module comment *)
Move(e, o) == IF o.evs = <<>> THEN [Obs(e) EXCEPT !.ok = TRUE] ELSE Obs(e)

NoSendClause(e, m2) ==
    IF m2 \notin {"connecting", "open", "closed"} THEN "P:" \o m2
    ELSE IF e.t = "accept" THEN "P:accept-args"
    ELSE IF e.t = "close" /\ Invalid(e.code) THEN "P:close-code-invalid"
    ELSE IF e.t = "send" /\ e.v = 0 THEN "P:payload-type"
    ELSE IF e.t \notin {"accept", "send", "close"} THEN "P:event-type"
    ELSE "P:extra-event"

ReasonAllowed == CloseEv(1000, 1, TRUE).rs # 0            \* = the version rule of CloseEv
SentClause(e, m2) ==
    IF m2 \notin {"connecting", "open", "closed"} THEN "P:" \o m2
    ELSE IF e.t = "close" /\ e.rs # 0 /\ CloseEv(e.code, 1, TRUE).rs = 0 THEN "P:close-reason-version"
    ELSE "ok"
(* D: a default reason is configured for the code, the version allows reasons, none was sent *)
DefaultReasonDetail(e) ==
    IF e.t = "close" /\ e.ok /\ e.rs = 0 /\ e.dr /\ ReasonAllowed THEN "D:default-reason" ELSE "ok"

-----------------------------------------------------------------------------
(* look-ahead: the sends that follow item i *)
SendsAfter(i) == SelectSeq(SubSeq(T.ev, i + 1, Len(T.ev)), LAMBDA x : x.d = "send")
FaultOf(obs)  == IF obs = <<>> THEN "none" ELSE FaultAt(obs[1])

RECURSIVE CmpEvs(_, _)
CmpEvs(es, os) ==          \* es: specified events, os: observed send items
    IF es = <<>> THEN (IF os = <<>> THEN "ok" ELSE "extra-event")
    ELSE IF os = <<>> THEN (IF Head(es).t = "close" THEN "close-missing" ELSE "event-missing")
    ELSE IF Head(es).t # Head(os).t THEN "event-type"
    ELSE IF Head(es).t = "close" /\ Head(es).code # Head(os).code THEN "close-code"
    ELSE IF Head(es).ok # Head(os).ok THEN "fault"
    ELSE CmpEvs(Tail(es), Tail(os))

(* what the framework owes at decision point `It`, given the sends that follow.  [name, needs ec, evs] *)
Owed(obs) ==
    LET f == FaultOf(obs) IN
    CASE It.d = "route" /\ It.kind = "miss"   -> [n |-> "map-3404", ec |-> FALSE, evs |-> Handle(w, "http", 404, "default", T.ec, f).evs]
      [] It.d = "route" /\ It.kind = "noresp" -> [n |-> "map-3405", ec |-> FALSE, evs |-> Handle(w, "http", 405, "default", T.ec, f).evs]
      [] It.d = "hx" /\ It.exc = "http"       -> [n |-> "map-http-status", ec |-> FALSE, evs |-> Handle(w, "http", It.hs, "default", T.ec, f).evs]
      [] It.d = "hx" /\ It.exc # "http"       -> [n |-> "map-error-code", ec |-> TRUE, evs |-> Handle(w, It.exc, 0, "default", T.ec, f).evs]
      [] It.d = "http"                        -> [n |-> "map-http-status", ec |-> FALSE, evs |-> Handle(w, "http", It.hs, "default", T.ec, f).evs]
      [] It.d = "cleanup"                     -> [n |-> "map-error-code", ec |-> TRUE, evs |-> Cleanup(w, T.ec, f).evs]
      [] OTHER                                -> [n |-> "final-close", ec |-> FALSE, evs |-> ReturnResult(T.ec, f).evs]

(* the next "hx" item, if any: is the HTTPError that routing raises taken by falcon's own handler? *)
NextHxCustom == \E i \in (l + 1)..Len(T.ev) : T.ev[i].d = "hx" /\ T.ev[i].hk = "custom"
                    /\ \A j \in (l + 1)..(i - 1) : T.ev[j].d # "hx"

IsDecisionPoint ==
    \/ It.d = "route" /\ It.kind \in {"miss", "noresp"} /\ ~NextHxCustom
    \/ It.d = "hx" /\ It.hk = "default"
    \/ It.d \in {"http", "cleanup"}
    \/ It.d = "resp" /\ It.kind = "return"

-----------------------------------------------------------------------------
TInit == /\ tid \in 1..Len(Traces) /\ l = 1
         /\ vl = (IF SessionSkip # "" THEN "skip/" \o SessionSkip ELSE "ok")
         /\ vm = "ok" /\ sm = "" /\ nm = 0 /\ vd = "ok"
         /\ ver = Traces[tid].ver /\ maxq = Traces[tid].maxq
         /\ pc = "start" /\ w = W0 /\ gone = FALSE /\ gcode = 0 /\ blk = "none" /\ mon = "connecting"
         /\ got = <<>> /\ last = L0

First(old, new) == IF old = "ok" THEN new ELSE old

(* the first event is not websocket.connect: the specification's one-step start (Start with first # "connect").
   The close falcon owes is AbandonedHandshakeClose; as in C17 this is model detail (cl = "D"). *)
AbandonedStep ==
    LET obs == SendsAfter(1)
        f   == FaultOf(obs)
        exp == AbandonedHandshakeClose(f).evs
        c   == CmpEvs(exp, obs)
        r   == IF c # "ok" THEN "D:abandoned-handshake:" \o c
               ELSE IF (exp[1].rs # 0) # (obs[1].rs # 0) THEN "D:abandoned-handshake:reason"
               ELSE "ok"
    IN /\ w' = W0 /\ pc' = "start"
       /\ mon' = IF obs # <<>> /\ obs[1].t = "close" /\ obs[1].ok THEN "closed" ELSE mon
       /\ vd' = First(vd, r)
       /\ l' = Len(T.ev)                    \* the sends were judged here; go on with the "end" item
       /\ UNCHANGED <<ver, maxq, gone, gcode, blk, got, last, vl, vm, sm, nm, tid>>

RecvStep ==
    IF It.t = "disconnect" /\ w.st # "closed"
    THEN /\ w' = IF maxq > 0 /\ w.st = "accepted" THEN [w EXCEPT !.seen = TRUE]         \* the pump met it
                 ELSE [w EXCEPT !.st = "closed", !.why = "client", !.cc = IF It.code <= 0 THEN 1000 ELSE It.code]
         /\ gone' = TRUE /\ gcode' = IF It.code <= 0 THEN 0 ELSE It.code
         /\ UNCHANGED <<ver, maxq, pc, blk, mon, got, last, vl, vm, sm, nm, vd>>
    ELSE UNCHANGED <<vars, vl, vm, sm, nm, vd>>

SendStep ==
    LET o  == SpecOf(It, w)
        m2 == MonStep(mon, Move(It, o), Known(w))
    IN /\ mon' = m2
       /\ w' = IF o.evs = <<>> THEN w ELSE o.w
       /\ vl' = IF o.evs = <<>> THEN NoSendClause(It, m2) ELSE SentClause(It, m2)
       /\ vd' = First(vd, DefaultReasonDetail(It))
       /\ UNCHANGED <<ver, maxq, pc, gone, gcode, blk, got, last, vm, sm, nm>>

MarkerStep ==
    /\ (IF ~IsDecisionPoint
        THEN UNCHANGED <<vm, sm, nm>>
        ELSE (LET obs == SendsAfter(l)
                  d   == Owed(obs)
                  c   == CmpEvs(d.evs, obs)
              IN (IF d.ec /\ ~EcInVocabulary
                  THEN (sm' = (IF sm = "" THEN "error-code-vocabulary" ELSE sm) /\ UNCHANGED <<vm, nm>>)
                  ELSE (/\ nm' = nm + 1 /\ UNCHANGED sm
                        /\ vm' = First(vm, IF c = "ok" THEN "ok"
                                           ELSE IF c = "fault" THEN "D:" \o d.n \o ":fault"
                                           ELSE "P:" \o d.n \o ":" \o c)))))
    /\ pc' = IF It.d = "resp" /\ It.kind = "enter" THEN "resp" ELSE pc
    /\ UNCHANGED <<ver, maxq, w, gone, gcode, blk, mon, got, last, vl, vd>>

RefusedClose(i) == i.d = "send" /\ i.t = "close" /\ ~i.ok
EndStep ==
    /\ pc' = "done"
    /\ last' = [L0 EXCEPT !.a = "return", !.fin = TRUE, !.esc = (~It.ok /\ HasItem(RefusedClose))]
    /\ UNCHANGED <<ver, maxq, w, gone, gcode, blk, mon, got, vl, vm, sm, nm, vd>>

Step == /\ l >= 1 /\ l <= Len(T.ev) /\ vl = "ok"
        /\ (IF l = 1 /\ It.d = "recv" /\ It.t # "connect" THEN AbandonedStep
            ELSE (/\ (CASE It.d = "recv" -> RecvStep
                        [] It.d = "send" -> SendStep
                        [] It.d \in {"route", "resp", "hx", "http", "cleanup"} -> MarkerStep
                        [] It.d = "end"  -> EndStep
                        [] OTHER -> UNCHANGED <<vars, vl, vm, sm, nm, vd>>)
                  /\ l' = l + 1 /\ UNCHANGED tid))

(* when the app callable has ended: the invariant of the specification on the replayed state, then the
   independent protocol monitor's findings on the very events (format of headers, codes, payloads) *)
Final == IF ~CloseAlwaysSent THEN "P:close-always-sent"
         ELSE IF T.x.monerrs > 0 THEN "P:Protocol"
         ELSE "ok"

CustomHandlerOnly == HasItem(LAMBDA i : i.d = "hx" /\ i.hk = "custom")
MOut == IF SessionSkip # "" THEN "skip/session"
        ELSE IF vm # "ok" THEN vm
        ELSE IF vl # "ok" THEN "skip/legality-failed-first"
        ELSE IF sm # "" THEN "skip/" \o sm
        ELSE IF nm = 0 THEN (IF CustomHandlerOnly THEN "skip/custom-handler"
                             ELSE IF T.ev[1].d = "recv" /\ T.ev[1].t # "connect" THEN "skip/abandoned-handshake"
                             ELSE "skip/no-decision-point")
        ELSE "ok"

Done == /\ l >= 1 /\ (l > Len(T.ev) \/ vl # "ok")
        /\ PrintT(<<"VL", tid, IF vl = "ok" THEN Final ELSE vl, l - 1>>)
        /\ PrintT(<<"VM", tid, MOut, nm>>)
        /\ PrintT(<<"VD", tid, vd, 0>>)
        /\ l' = -1 /\ UNCHANGED <<vars, tid, vl, vm, sm, nm, vd>>

TNext == Step \/ Done
TSpec == TInit /\ [][TNext]_tvars
Sound == l >= -1
=============================================================================
