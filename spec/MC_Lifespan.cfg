INIT Init
NEXT MCNext
CONSTANTS
  HandlerStacks <- LStacks3
  AddShapes <- Shapes
  MaxAdds = 2
  MaxCycles = 2
INVARIANT StartupInOrder
INVARIANT ShutdownReversed
INVARIANT StartupBeforeShutdown
INVARIANT CyclesInOrder
INVARIANT FirstFailureStops
INVARIANT EventsLegal
INVARIANT CompleteMeansAllRan
