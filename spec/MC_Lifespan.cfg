INIT Init
NEXT MCNext
CONSTANTS
  HandlerStacks <- LStacks4
INVARIANT StartupInOrder
INVARIANT ShutdownReversed
INVARIANT StartupBeforeShutdown
INVARIANT FirstFailureStops
INVARIANT EventsLegal
INVARIANT CompleteMeansAllRan
