INIT Init
NEXT XNext
CONSTANTS
  Ranges <- RangesQ
  MTypes <- MTypesQ
  AllM <- AllMQ
  MaxRanges = 2
  MaxCands = 1
  SubBeforeExact = FALSE
  Positive = TRUE
  QSplits = FALSE
INVARIANT SpecificityOrder
INVARIANT BestIsFirstMax
INVARIANT QZeroNeverChosen
INVARIANT MalformedOnlyValueError
INVARIANT AcceptsIffPositive
INVARIANT QPositionIrrelevant
