INIT Init
NEXT XNext
CONSTANTS
  Ranges <- RangesQ
  MTypes <- MTypesQ
  AllM <- AllMQ
  MaxRanges = 2
  MaxCands = 1
  SubBeforeExact = FALSE
  Positive = TRUE
INVARIANT SpecificityOrder
INVARIANT BestIsFirstMax
INVARIANT QZeroNeverChosen
INVARIANT MalformedOnlyValueError
INVARIANT AcceptsIffPositive
