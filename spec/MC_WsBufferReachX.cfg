\* reachability witness (must be VIOLATED): capacity + 1 messages delivered after a close() that failed on the wire
INIT XInit
NEXT XNext
CONSTANTS
  MaxQs = {2}
  NMsg = 3
  DiscChoices = {FALSE}
  GeCmp = TRUE
  AwaitStop = TRUE
  NotifyPop = TRUE
  ReleaseOnEnd = TRUE
  Faults = FALSE
  StopAfterSend = TRUE
  CleanupOnDisc = TRUE
  MaxSendFail = 1
  Family = "none"
  MaxOps = 4
  MaxCancel = 0
  Depth = 0
INVARIANT DeliveredAfterFailedClose
