SPECIFICATION MCSpec
CONSTANTS
  NT = 3
  Threads <- MCThreads
  NRoutes = 2
  UseLock = TRUE
  Recheck = TRUE
  Want <- MCWant
INVARIANT SerialAnswer
INVARIANT MutualExclusion
INVARIANT CompileOnce
INVARIANT PublishedIsComplete
PROPERTY AllFinish
