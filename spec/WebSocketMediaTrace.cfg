INIT TInit
NEXT TNext
CONSTANTS
  Conns = {1, 2, 3}
  Bases = {1, 2, 3, 4, 5, 6}
  Kinds = {"text", "bin"}
  Marks = {7, 8, 9}
  ShareDecoded = FALSE
  MemoEncoded = FALSE
INVARIANT Sound
