INIT Init
NEXT Next
CONSTANTS
  Datas <- MCDatasQ
  BlockSize = 4
  MaxChunks = 2
  Statuses = {200}
  Announces = {FALSE}
  Interleave = FALSE
  ShortReadEndsBody = TRUE
  EmptyChunkEndsBody = FALSE
  AsgiReadsOnce = FALSE
INVARIANT BodyIsWholeSource
