INIT Init
NEXT Next
CONSTANTS
  Datas <- MCDatasQ
  BlockSize = 4
  MaxChunks = 3
  Statuses = {200}
  Announces = {FALSE}
  Interleave = FALSE
  ShortReadEndsBody = FALSE
  EmptyChunkEndsBody = TRUE
  AsgiReadsOnce = FALSE
INVARIANT BodyIsWholeSource
