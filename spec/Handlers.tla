---------------------------- MODULE Handlers ----------------------------
(* C11b: a media-handler mapping with a memoising resolver.

   objs[o] is one Handlers object: an insertion-ordered mapping (sequence of [k, h] with
   distinct keys k, k a media type of MediaTypesOps) and the resolver's memo table.
   One action per public mutating call (h[k] = v, del h[k], update, pop, clear, setdefault,
   copy) and Resolve, which is what Request.get_media / Response.render_body /
   Request.get_param_as_json do to find their handler.

   Implementation-shaped rules, each a named operator or switch:
     - every mutation goes through SetItem / DelItem, which clear the memo table
       (ClearOnSet / ClearOnDelete; FALSE = the wrong design, vacuity switch);
     - Copy builds an object with a fresh, empty memo table;
     - a raised 415 is not memoised (ErrorsNotMemoised);
     - the rule: the mapping designates the FIRST REGISTERED key of maximal positive quality for the
       effective type (MediaTypesOps!BestIdx over the keys in registration order; the content type
       plays the part of the Accept header, so its own q weighs every key and q=0 matches nothing);
     - ExactKeyFirst: a key the effective type is LITERALLY equal to (same characters) wins before
       the rule is consulted.  Content types are therefore modelled AS WRITTEN: [t, s, pm, q, qp, lit]
       with q/qp as in MediaTypesOps!MRP and lit = "spelled exactly like the canonical spelling of
       the media type [t, s, pm]" (FALSE: no blank after ";", quoted or re-cased parameter, trailing
       ";", surrounding blanks, a q parameter ...).  Keys and default types are always canonical.
       ShortcutInsideRule: the shortcut never leaves the set of keys of maximal positive quality;
     - BareKeyShortcut = TRUE is the wrong design "after the literal key, the bare type/subtype key
       is tried before the rule" (vacuity switch for FirstOfBest / NeverStale).  *)
EXTENDS MediaTypesOps, TLC

CONSTANTS Keys,            \* media types usable as mapping keys
          HandlerIds,      \* positive integers naming handler objects
          CTypes,          \* content types offered to Resolve (may contain NoType and AnyType)
          Defaults,        \* default media types offered to Resolve
          NoRaiseCalls,    \* set of <<ct, default>> for which a raise_not_found=False call exists
          MaxObjs, MaxUpdate,
          ClearOnSet, ClearOnDelete,
          BareKeyShortcut

VARIABLES objs, last
vars == <<objs, last>>

(* a content type as written *)
WCT(t, s, pm, q, qp, lit) == [t |-> t, s |-> s, pm |-> pm, q |-> q, qp |-> qp, lit |-> lit]
Lit(m)    == WCT(m.t, m.s, m.pm, QABSENT, Len(m.pm), TRUE)       \* the canonical spelling of media type m
Alt(m)    == WCT(m.t, m.s, m.pm, QABSENT, Len(m.pm), FALSE)      \* another spelling of the same media type
Wq(m, q, qp) == WCT(m.t, m.s, m.pm, q, qp, FALSE)                \* ... carrying a q parameter at position qp
TypeOf(w) == MT(w.t, w.s, w.pm)
NONE    == 0                        \* "no handler" (None, or the 415 error when raising)
NOKEY   == MT("", "", <<>>)         \* filler for unused record fields
NOCT    == Lit(NOKEY)
NoType  == Lit(MT("-", "-", <<>>))  \* no Content-Type at all
AnyType == Lit(MT("*", "*", <<>>))  \* the literal */* (other spellings of */* are outside the vocabulary)

Rec(op, o, k, h, ct, d, r, res, err) ==
    [op |-> op, o |-> o, k |-> k, h |-> h, pairs |-> <<>>, ct |-> ct, d |-> d, r |-> r, res |-> res, err |-> err]

(* ---- the mapping ---- *)
KeySeq(map)    == [i \in DOMAIN map |-> map[i].k]
HasKey(map, k) == \E i \in DOMAIN map : map[i].k = k
Get(map, k)    == map[CHOOSE i \in DOMAIN map : map[i].k = k].h
Put(map, k, h) == IF HasKey(map, k) THEN [i \in DOMAIN map |-> IF map[i].k = k THEN [k |-> k, h |-> h] ELSE map[i]]
                  ELSE Append(map, [k |-> k, h |-> h])
RECURSIVE Without(_, _)
Without(map, k) == IF map = <<>> THEN <<>>
                   ELSE IF Head(map).k = k THEN Tail(map) ELSE <<Head(map)>> \o Without(Tail(map), k)

(* ---- what the current mapping designates ---- *)
Effective(ct, d) == IF ct = NoType \/ ct = AnyType THEN Lit(d) ELSE ct
AsHeader(w)      == <<MRP(w.t, w.s, w.pm, w.q, w.qp)>>
(* the handlers a resolution may legitimately return: those mapped under a key of maximal,
   positive quality for the effective type (the property's "designates by that matching rule") *)
DesignatedSet(map, ct, d) ==
    LET t == Effective(ct, d)
        qs == [i \in DOMAIN map |-> Quality(AsHeader(t), map[i].k)]
    IN  {map[i].h : i \in {i \in DOMAIN map : qs[i] > 0 /\ \A j \in DOMAIN map : qs[j] <= qs[i]}}
(* the rule: the handler under the first registered key of maximal positive quality *)
RuleDesignated(map, ct, d) ==
    LET b == BestIdx(AsHeader(Effective(ct, d)), KeySeq(map)) IN IF b = 0 THEN NONE ELSE map[b].h
(* the literal-key shortcut applies *)
ShortcutApplies(map, ct, d) ==
    LET w == Effective(ct, d) IN w.lit /\ w.q = QABSENT /\ HasKey(map, TypeOf(w))
BareKey(w) == MT(w.t, w.s, <<>>)
(* what the implementation picks: ExactKeyFirst, then the rule *)
Designated(map, ct, d) ==
    LET w == Effective(ct, d) IN
    IF ShortcutApplies(map, ct, d) THEN Get(map, TypeOf(w))
    ELSE IF BareKeyShortcut /\ HasKey(map, BareKey(w)) THEN Get(map, BareKey(w))
    ELSE RuleDesignated(map, ct, d)

(* ---- primitives every mutation is made of ---- *)
SetItem(ob, k, h) == [map |-> Put(ob.map, k, h), memo |-> IF ClearOnSet THEN {} ELSE ob.memo]
DelItem(ob, k)    == [map |-> Without(ob.map, k), memo |-> IF ClearOnDelete THEN {} ELSE ob.memo]
RECURSIVE SetAll(_, _)
SetAll(ob, pairs) == IF pairs = <<>> THEN ob ELSE SetAll(SetItem(ob, Head(pairs).k, Head(pairs).h), Tail(pairs))
RECURSIVE DelAll(_)
DelAll(ob) == IF ob.map = <<>> THEN ob ELSE DelAll(DelItem(ob, Head(ob.map).k))    \* clear() = popitem() until empty

Upd(o, ob) == objs' = [objs EXCEPT ![o] = ob]

Init == /\ \E k \in Keys, h \in HandlerIds : objs = <<[map |-> <<[k |-> k, h |-> h]>>, memo |-> {}]>>
        /\ last = Rec("init", 0, NOKEY, 0, NOCT, NOKEY, FALSE, 0, FALSE)

Set(o, k, h) == /\ Upd(o, SetItem(objs[o], k, h))
                /\ last' = Rec("set", o, k, h, NOCT, NOKEY, FALSE, 0, FALSE)
Del(o, k) ==    /\ IF HasKey(objs[o].map, k) THEN Upd(o, DelItem(objs[o], k)) ELSE UNCHANGED objs
                /\ last' = Rec("del", o, k, 0, NOCT, NOKEY, FALSE, 0, ~HasKey(objs[o].map, k))     \* KeyError
(* pop(k) raises KeyError for a missing key, pop(k, default) returns the default (dflt = TRUE) *)
Pop(o, k, dflt) ==
    /\ IF HasKey(objs[o].map, k) THEN Upd(o, DelItem(objs[o], k)) ELSE UNCHANGED objs
    /\ last' = Rec("pop", o, k, 0, NOCT, NOKEY, dflt, IF HasKey(objs[o].map, k) THEN Get(objs[o].map, k) ELSE NONE,
                   ~HasKey(objs[o].map, k) /\ ~dflt)
Update(o, pairs) == /\ Upd(o, SetAll(objs[o], pairs))
                    /\ last' = [Rec("update", o, NOKEY, 0, NOCT, NOKEY, FALSE, 0, FALSE) EXCEPT !.pairs = pairs]
(* a bulk update that fails part-way (the iterable raises after `pairs`, or the next pair is malformed):
   the items stored before the failure ARE part of the mapping, and each of them went through
   SetItem, so the memo table is as clear as after a complete update (PrefixOfFailedUpdateCounts) *)
UpdateFail(o, pairs) == /\ Upd(o, SetAll(objs[o], pairs))
                        /\ last' = [Rec("updatefail", o, NOKEY, 0, NOCT, NOKEY, FALSE, 0, TRUE) EXCEPT !.pairs = pairs]
Clear(o) ==     /\ Upd(o, DelAll(objs[o]))
                /\ last' = Rec("clear", o, NOKEY, 0, NOCT, NOKEY, FALSE, 0, FALSE)
SetDefault(o, k, h) ==
    /\ IF HasKey(objs[o].map, k) THEN UNCHANGED objs ELSE Upd(o, SetItem(objs[o], k, h))
    /\ last' = Rec("setdefault", o, k, h, NOCT, NOKEY, FALSE, IF HasKey(objs[o].map, k) THEN Get(objs[o].map, k) ELSE h, FALSE)
(* copy() of an EMPTIED mapping comes back populated with the framework's default handlers
   (Handlers(initial or {...})); that is outside the property and excluded here by the guard *)
Copy(o) ==      /\ Len(objs) < MaxObjs /\ objs[o].map # <<>>
                /\ objs' = Append(objs, [map |-> objs[o].map, memo |-> {}])
                /\ last' = Rec("copy", o, NOKEY, 0, NOCT, NOKEY, FALSE, Len(objs) + 1, FALSE)

(* resolve(media_type, default, raise_not_found), memoised on its three arguments *)
Resolve(o, ct, d, r) ==
    LET hit == {e \in objs[o].memo : e.ct = ct /\ e.d = d /\ e.r = r}
        res == IF hit # {} THEN (CHOOSE e \in hit : TRUE).res ELSE Designated(objs[o].map, ct, d)
        ErrorsNotMemoised == res = NONE /\ r
    IN  /\ Upd(o, [objs[o] EXCEPT !.memo = IF hit = {} /\ ~ErrorsNotMemoised
                                             THEN @ \cup {[ct |-> ct, d |-> d, r |-> r, res |-> res]} ELSE @])
        /\ last' = Rec("resolve", o, NOKEY, 0, ct, d, r, res, res = NONE /\ r)          \* err = 415

Pairs == UNION {[1..n -> [k : Keys, h : HandlerIds]] : n \in 1..MaxUpdate}

Mutate(o) == \/ \E k \in Keys, h \in HandlerIds : Set(o, k, h) \/ SetDefault(o, k, h)
             \/ \E k \in Keys : Del(o, k) \/ Pop(o, k, TRUE) \/ Pop(o, k, FALSE)
             \/ \E ps \in Pairs : Update(o, ps) \/ UpdateFail(o, ps)
             \/ Clear(o) \/ Copy(o)
Next == \E o \in DOMAIN objs :
            \/ Mutate(o)
            \/ \E ct \in CTypes, d \in Defaults : Resolve(o, ct, d, TRUE)
            \/ \E cd \in NoRaiseCalls : Resolve(o, cd[1], cd[2], FALSE)
Spec == Init /\ [][Next]_vars

(* ---- properties ---- *)
WellFormedMaps == \A o \in DOMAIN objs : \A i, j \in DOMAIN objs[o].map : i # j => objs[o].map[i].k # objs[o].map[j].k
(* never a stale handler: what a resolution returned is what the CURRENT mapping designates *)
NeverStale  == last.op = "resolve" =>
                  /\ last.res = Designated(objs[last.o].map, last.ct, last.d)
                  /\ (last.res = NONE) = (DesignatedSet(objs[last.o].map, last.ct, last.d) = {})
                  /\ last.res # NONE => last.res \in DesignatedSet(objs[last.o].map, last.ct, last.d)
                  /\ last.err = (last.res = NONE /\ last.r)
(* where no key is literally equal, the resolution is exactly the rule's: first registered key of highest quality *)
FirstOfBest == (last.op = "resolve" /\ ~ShortcutApplies(objs[last.o].map, last.ct, last.d)) =>
                   last.res = RuleDesignated(objs[last.o].map, last.ct, last.d)
(* the inductive reason: no memo entry ever disagrees with the mapping it belongs to *)
MemoCoherent == \A o \in DOMAIN objs : \A e \in objs[o].memo : e.res = Designated(objs[o].map, e.ct, e.d)
(* the exact-key shortcut never contradicts the matching rule *)
ShortcutInsideRule == \A o \in DOMAIN objs : \A ct \in CTypes, d \in Defaults :
                        LET r == Designated(objs[o].map, ct, d) IN
                        IF r = NONE THEN DesignatedSet(objs[o].map, ct, d) = {} ELSE r \in DesignatedSet(objs[o].map, ct, d)
(* the STRICT reading "always the first registered key of highest quality" - refuted for the ExactKeyFirst design
   (an earlier registered key that also matches, e.g. */* before application/json): kept as a documented
   counterexample generator, not part of the property check *)
ShortcutIsRule == last.op = "resolve" => last.res = RuleDesignated(objs[last.o].map, last.ct, last.d)
(* a copy is independent: mutating one object never changes another *)
CopyIndependent == [][\A o \in DOMAIN objs : (last'.op \notin {"copy"} /\ last'.o # o) => objs'[o] = objs[o]]_vars
========================================================================
