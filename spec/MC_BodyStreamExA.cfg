INIT AInit
NEXT HNext
CONSTANTS
  Datas <- MCDatas
  Scripts <- MCScripts
  CLs <- MCCLs
  Sizes <- MCSizes
  ShortReads = TRUE
  ChargeByRequested = FALSE
  BoundLineOps = TRUE
  TruncateChunks = TRUE
  CountTruncated = TRUE
  HonourDisconnect = TRUE
  TellFromZero = TRUE
  Depth = 2
  MaxEvents = 2
  MaxEvLen = 2
  MaxData = 0
INVARIANT Emit
