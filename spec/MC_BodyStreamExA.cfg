INIT AInit
NEXT HNext
CONSTANTS
  Datas <- MCDatas
  Scripts <- MCScripts
  CLs <- QCLs
  Sizes <- QSizes
  ShortReads = TRUE
  ChargeByRequested = FALSE
  BoundLineOps = TRUE
  TruncateChunks = TRUE
  CountTruncated = TRUE
  HonourDisconnect = TRUE
  TellFromZero = TRUE
  RejectNegativeCL = TRUE
  AccountBeforeYield = TRUE
  ExhaustToTheEnd = TRUE
  Depth = 2
  MaxEvents = 2
  MaxEvLen = 2
  MaxData = 0
INVARIANT Emit
