INIT AInit
NEXT ANextFallbacks
CONSTANTS
  Templates <- QTemplates
  ResKinds <- SmallResKinds
  SinkPats <- RSinkPats
  StaticPrefixes <- RStaticPrefixes
  Methods <- RMethods
  Paths <- RPaths
  MaxCalls = 3
  NewestFirst = TRUE
  RoutesFirst = TRUE
INVARIANT Emit
