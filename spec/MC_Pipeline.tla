---------------------------- MODULE MC_Pipeline ----------------------------
(* Bounded instances of Pipeline.  The class table (linearisations and statuses) is read from the
   JSON file named by the environment variable CLASSES_FILE, which the harness writes from the real
   Python exception classes it generated (engine/pipeline_harness.py: class_table()).
   Every call site is a named action, so `-coverage 1` shows which sites fired. *)
EXTENDS Pipeline, Json, IOUtils

CONSTANTS MaxFaults,     \* fault budget: at most this many non-return choices per behaviour
          SameObj        \* whether a handler object may be registered again for another class

ClassFile == JsonDeserialize(IOEnv.CLASSES_FILE)
MCMro     == ClassFile.mro
MCStatus  == ClassFile.status
MCOwnVary == ClassFile.vary

AllShapes == (SUBSET {"req", "rsrc", "resp"}) \ {{}}
StacksUpTo(n) == UNION {[1..m -> AllShapes] : m \in 0..n}
Stacks1 == StacksUpTo(1)
Stacks2 == StacksUpTo(2)
Stacks3 == StacksUpTo(3)
Full == {"req", "rsrc", "resp"}
StackFull1 == {<<Full>>}
StackFull2 == {<<Full, Full>>}
AllTargets == {"routed", "sink", "unrouted"}

R(c, b) == [cls |-> c, beh |-> b]
(* C03 instances: a fixed registry offering every kind of handler outcome *)
C3Regs == {<< R("AppB", "set"), R("AppC", "other"), R("AppD", "http"), R("StSub", "noop") >>}
C3Raise  == {"HTTPError", "HTTPStatus", "AppA", "AppB", "AppC", "AppD"}
C3RaiseSim == C3Raise \cup {"BadStr", "NonStr", "BadRepr"}
C3RaiseQ == {"HTTPError", "AppA", "AppB", "AppC"}
C3Render == {"AppA", "HTTPError"}
NoRegs == {<<>>}
(* C04 instances: registration histories over a class universe with a diamond and a mixed class *)
Both == BOOLEAN
OnlyIndep == {TRUE}
C4Targets == {"routed", "unrouted"}
C4RegClasses == {"Exception", "HTTPError", "HTTPNotFound", "AppA", "AppB", "AppC"}
C4RegClassesQ == {"Exception", "HTTPNotFound", "AppA", "AppB"}
C4RaiseQ == {"HTTPNotFound", "StSub", "AppA", "AppB", "AppD", "AppX", "BadStr"}
C4RenderQ == {"AppD", "HTTPNotFound"}
(* session instances (several requests on one application, registrations in between) *)
SRegClasses == {"AppA", "AppB", "HTTPNotFound"}
SRegBehs    == {"set"}
SRegBehs2   == {"set", "http"}
SRaise      == {"AppD", "AppX"}
SRaise2     == {"AppB", "AppD", "AppX", "HTTPNotFound"}
SRender     == {"AppD"}
OnlyRouted  == {"routed"}
(* registration-history instances: a depth-3 chain Exception <- AppA <- AppB <- AppD (AppD is also the diamond over
   AppB/AppC); handler objects registered again for descendants; a request after every registration *)
GRegClasses == {"AppA", "AppB", "AppD"}
GRegClasses2 == {"Exception", "AppA", "AppB", "AppC", "AppD"}
GRaise      == {"AppD"}
GRaise2     == {"AppD", "AppB"}
NoStack     == {<<>>}
C4RegBehs    == {"set", "http", "draftst", "other"}
C4RegBehsAll == {"set", "setbad", "noop", "http", "status", "draftst", "drafterr", "other"}
C4Raise  == {"HTTPError", "HTTPNotFound", "HTTPStatus", "StSub", "AppA", "AppB", "AppC", "AppD", "AppX", "Exception",
             "BadStr", "NonStr", "BadRepr"}    \* the last three cannot be formatted (str() / repr() of them raises)
C4Render == {"AppA", "AppD", "AppX", "HTTPNotFound"}
None == {}
(* mixin instances (C04): handlers for a mixin / a secondary base only; raised from every site *)
MRegClasses == {"Retryable", "ServiceError", "AppA", "Exception"}
MRaise      == {"Overloaded", "MixFirst", "HTTPMix"}
MRender     == {"Overloaded", "MixFirst"}
(* wrong-design runs (vacuity control): a tiny instance in which every named wrong design is reachable *)
WRegs  == {<< R("AppB", "set"), R("AppB", "http"), R("AppD", "setbad"), R("StSub", "noop"), R("HTTPError", "draftst") >>}
WRaise == {"AppB", "AppD", "StSub", "HTTPError"}
MCWrong == IF "WRONG" \in DOMAIN IOEnv THEN IOEnv.WRONG ELSE "none"

Budget(a) == a = "ret" \/ faults < MaxFaults
P3 == ActCls({"ret", "complete", "raise"})
P2 == ActCls({"ret", "raise"})

XAddHandler == \E c \in RegClasses, b \in RegBehs : AddHandler(c, b)
XAddSame    == SameObj /\ \E c \in RegClasses, k \in 1..Len(reg) : AddSame(c, k)
XStart      == Start
XReqCall    == \E p \in P3 : Budget(p[1]) /\ ReqCall(p[1], p[2])
XRsrcCall   == \E p \in P3 : Budget(p[1]) /\ RsrcCall(p[1], p[2])
XBeforeCall == \E p \in P2 : Budget(p[1]) /\ BeforeCall(p[1], p[2])
XResponder  == \E p \in P2 : Budget(p[1]) /\ ResponderCall(p[1], p[2])
XAfterCall  == \E p \in P2 : Budget(p[1]) /\ AfterCall(p[1], p[2])
XRespCall   == \E p \in P2 : Budget(p[1]) /\ RespCall(p[1], p[2])
XRenderOk   == RenderCall("ret", "")
XRenderFail == faults < MaxFaults /\ \E c \in RenderClasses : RenderCall("raise", c)
XRenderBad  == \E c \in RenderClasses : RenderBad(c)
XReqSkip == ReqSkip
XReqDone == ReqDone
XRoute == Route
XRsrcSkip == RsrcSkip
XRsrcDone == RsrcDone
XBeforeDone == BeforeDone
XNotFound == NotFound
XAfterDone == AfterDone
XRespDone == RespDone
XHandle == HandleCall
XNextRequest == NextRequest

MCNext == XAddHandler \/ XAddSame \/ XStart \/ XReqCall \/ XRsrcCall \/ XBeforeCall \/ XResponder \/ XAfterCall \/ XRespCall
          \/ XRenderOk \/ XRenderFail \/ XRenderBad \/ XReqSkip \/ XReqDone \/ XRoute \/ XRsrcSkip \/ XRsrcDone \/ XBeforeDone
          \/ XNotFound \/ XAfterDone \/ XRespDone \/ XHandle \/ XNextRequest

TypeOK == /\ phase \in {"setup", "req", "route", "rsrc", "before", "responder", "after", "resp", "render", "handle", "end"}
          /\ faults <= MaxFaults /\ status \in 100..999
          /\ body.k \in {"none", "mark", "err", "e500", "stext", "hset", "hbad"}

=============================================================================
