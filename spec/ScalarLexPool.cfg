INIT PInit
NEXT PNext
INVARIANT EmitPool
