---------------------------- MODULE MC_Multipart ----------------------------
(* Bounded instances of Multipart.  Pools are indexed so that a .cfg selects sub-pools;
   every disjunct of Multipart!Next is a named action so that coverage shows what fired.
   X-actions keep the history empty (exhaustive check of the design), A-actions log every
   server-side call into h (behaviour export for the replay leg). *)
EXTENDS Multipart, Json

VARIABLES h,       \* history of server-side calls (export instances only)
          esel     \* simulation instances: the envelope drawn in the initial state (NoEnv otherwise)
CONSTANTS ContentSel, ProfileSel, UseJson, BoundarySel, PreSel, EpiSel, FinSel, LimModes,
          EditPos, EditKinds, EditVals, Depth

B70 == <<98, 98, 98, 98, 98, 98, 98, 98, 98, 98, 98, 98, 98, 98, 98, 98, 98, 98, 98, 98, 98, 98, 98, 98, 98, 98, 98, 98,
         98, 98, 98, 98, 98, 98, 98, 45, 48, 49, 50, 51, 52, 53, 54, 55, 56, 57, 97, 98, 99, 100, 101, 102, 103, 104,
         105, 106, 107, 108, 109, 110, 111, 112, 113, 114, 115, 116, 117, 118, 119, 120>>

(* adversarial contents: empty, CR, LF, CRLF, "--", CRLF "--", CRLF "--b" (a proper prefix of the
   delimiter for every boundary but "b"), "x--b", a plain word, CRLF "--bQ" minus its last byte
   doubled, LF "--b" (wrong line end), bytes >= 128 *)
Contents == << <<>>, <<13>>, <<10>>, CRLF, DASH2, CRLF \o DASH2, CRLF \o DASH2 \o <<98>>,
               <<120>> \o DASH2 \o <<98>>, <<120, 121, 122>>, <<13, 13, 10, 45, 45, 98, 13, 10, 45>>,
               <<10, 45, 45, 98>>, <<195, 169, 255>> >>
J1 == <<123, 34, 97, 34, 58, 49, 125>>      \* {"a":1}
J2 == <<34, 45, 45, 34>>                   \* "--"

Profiles == <<
    [name |-> <<97>>,                  fkind |-> 0, fname |-> <<>>, fback |-> <<>>,                ctype |-> NONE,       hv |-> 0],
    [name |-> <<233, 59, 61, 32, 97>>, fkind |-> 1, fname |-> <<102, 46, 116>>, fback |-> <<>>,    ctype |-> T_PLAIN_CS, hv |-> 1],
    [name |-> <<97>>,                  fkind |-> 2, fname |-> <<8364, 32, 120>>, fback |-> <<>>,   ctype |-> T_OCTET,    hv |-> 2],
    [name |-> <<110, 45, 49>>,         fkind |-> 1, fname |-> <<>>, fback |-> <<>>,                ctype |-> T_PLAIN,    hv |-> 3] >>
(* file names in RFC 5987 form with 2-, 3- and 4-byte sequences / without any escape (corruption exports) *)
XProfiles == <<
    [name |-> <<97>>, fkind |-> 2, fname |-> <<233, 8364, 128512>>, fback |-> <<>>,      ctype |-> NONE, hv |-> 0],
    [name |-> <<97>>, fkind |-> 2, fname |-> <<97, 46, 116, 120, 116>>, fback |-> <<>>,  ctype |-> NONE, hv |-> 0] >>
(* names / file names with escaped quotes, backslashes and semicolons:  q";b\c  and  say "hi";x.txt ,  \";  *)
QProfiles == <<
    [name |-> <<113, 34, 59, 98, 92, 99>>, fkind |-> 1,
     fname |-> <<115, 97, 121, 32, 34, 104, 105, 34, 59, 120, 46, 116, 120, 116>>, fback |-> <<>>, ctype |-> NONE, hv |-> 0],
    [name |-> <<92, 34, 59>>, fkind |-> 0, fname |-> <<>>, fback |-> <<>>, ctype |-> T_PLAIN, hv |-> 1] >>
(* both file name forms (plain ASCII fallback + the real name, either order) and text parts whose charset
   names no decoder:  undefined ,  utf<NUL>8 ,  the empty label *)
T_CS == T_PLAIN \o V_CHARSET
FProfiles == <<
    [name |-> <<116>>, fkind |-> 3, fname |-> <<110, 97, 239, 118, 101>>, fback |-> <<110, 97, 95, 118, 101>>,
     ctype |-> T_CS \o <<117, 110, 100, 101, 102, 105, 110, 101, 100>>, hv |-> 0],
    [name |-> <<116>>, fkind |-> 4, fname |-> <<233, 46, 116>>, fback |-> <<95, 46, 116>>,
     ctype |-> T_CS \o <<117, 116, 102, 0, 56>>, hv |-> 1],
    [name |-> <<116>>, fkind |-> 0, fname |-> <<>>, fback |-> <<>>, ctype |-> T_CS, hv |-> 0] >>
(* charset labels one edit away from "UTF-8" (edit bytes - X 2 A b): the ones CPython's codec registry
   resolves to UTF-8; every other label of that neighbourhood made of word characters and dashes is unknown
   to it (table computed once with codecs.lookup, part of the trusted base) *)
Utf8Labels == { <<85, 84, 70, 45, 56>>, <<85, 84, 70, 56>>, <<85, 84, 70, 45>>, <<85, 84, 70, 45, 45>>, <<85, 84, 70, 45, 45, 56>>,
                <<85, 84, 70, 45, 56, 45>>, <<45, 85, 84, 70, 45, 56>> }
Upper(l) == [i \in 1..Len(l) |-> IF l[i] >= 97 /\ l[i] <= 122 THEN l[i] - 32 ELSE l[i]]
MCCharsetClass(l) == IF Upper(l) \in Utf8Labels THEN "utf8" ELSE "bogus"        \* (labels are case-insensitive)
JProfile == [name |-> <<106>>, fkind |-> 0, fname |-> <<>>, fback |-> <<>>, ctype |-> T_JSON, hv |-> 0]

MkPart(pr, c) == [name |-> pr.name, fkind |-> pr.fkind, fname |-> pr.fname, fback |-> pr.fback, ctype |-> pr.ctype, hv |-> pr.hv, content |-> c]
MCPartPool == {MkPart(Profiles[i], Contents[j]) : i \in ProfileSel \cap 1..4, j \in ContentSel}
              \cup {MkPart(XProfiles[i - 4], Contents[j]) : i \in ProfileSel \cap 5..6, j \in ContentSel}
              \cup {MkPart(QProfiles[i - 6], Contents[j]) : i \in ProfileSel \cap 7..8, j \in ContentSel}
              \cup {MkPart(FProfiles[i - 8], Contents[j]) : i \in ProfileSel \cap 9..11, j \in ContentSel}
              \cup (IF UseJson THEN {MkPart(JProfile, J1), MkPart(JProfile, J2)} ELSE {})

B70S == <<32, 32>> \o SubSeq(B70, 3, 70)          \* 70 characters, the first two are spaces
Boundaries == << <<98>>, <<98, 81>>, B70, <<32, 98>>, B70S, <<39, 40, 41, 43, 95, 45, 46, 47, 58, 61, 63, 32, 98>> >>     \* '()+_-./:=? b  (the comma: see checks/c13.py)
Pres == << <<>>, <<112>>, DASH2 >>
Epis == << <<>>, <<101>>, CRLF \o DASH2 \o <<98>> \o CRLF \o <<120>> >>
MCEnvPool == {[b |-> Boundaries[i], pre |-> Pres[j], epi |-> Epis[k], fin |-> f] :
                i \in BoundarySel, j \in PreSel, k \in EpiSel, f \in FinSel}

(* limit settings near the form's actual sizes (vary one limit at a time) *)
BaseLim == [count |-> 64, hdr |-> 8192, buf |-> 4096]
MCLimitsOf(f, e) ==
    LET n  == Len(f)
        HL == {Len(EncHeaders(f[i])) : i \in 1..n}
        CL == {Len(f[i].content) : i \in 1..n}
    IN  (IF "base" \in LimModes THEN {BaseLim} ELSE {})
        \cup (IF "count" \in LimModes
                THEN {[BaseLim EXCEPT !.count = c] : c \in ({n - 1, n, n + 1} \cap 1..100) \cup {0}} ELSE {})
        \cup (IF "hdr" \in LimModes
                THEN {[BaseLim EXCEPT !.hdr = x] : x \in UNION {{k - 1, k} : k \in HL}} ELSE {})
        \cup (IF "buf" \in LimModes
                THEN {[BaseLim EXCEPT !.buf = x] : x \in (UNION {{k - 1, k, k + 1} : k \in CL}) \cap Nat} ELSE {})

MCSizes    == {0, 1, 2}
SimSizes   == {0, 1, 2, 3, 5}
MCRDelims  == {<<10>>, DASH2, CRLF}
QSizes     == {1, 2}
QRDelims   == {<<10>>, DASH2}
FewPos     == {1, 3, 20, 62}
ExpSizes   == {1}
ExpRDelims == {DASH2}
NoSizes    == {}
NoRDelims  == {}
AllPos     == 1..400
NoPos      == {}

(* ---- named actions ---- *)
Log   == h' = (IF Len(h) < Depth THEN Append(h, last') ELSE h) /\ UNCHANGED esel
Keep  == UNCHANGED <<h, esel>>
Bound == Len(h) < Depth

SkipCond    == st = "part" /\ pos = pstart
PartialCond == st = "part" /\ pos > pstart /\ pos < pend
FullCond    == st = "part" /\ pos = pend /\ pos > pstart

XAddPart   == (\E p \in PartPool : AddPart(p)) /\ Keep
XSeal      == (\E e \in EnvPool : Seal(e)) /\ Keep
XCorrupt   == (\E i \in EditPos, k \in EditKinds, v \in EditVals : Corrupt(i, k, v)) /\ Keep
XServe     == st = "sealed" /\ (\E lm \in LimitsOf(form, env) : Serve(lm)) /\ Keep
XFirst     == st = "iter" /\ NextPart /\ Keep
XSkip      == SkipCond /\ NextPart /\ Keep
XNextAfterPartial == PartialCond /\ NextPart /\ Keep
XNextAfterFull    == FullCond /\ NextPart /\ Keep
XReadSome  == (\E n \in Sizes : ReadSome(n)) /\ Keep
XReadAll   == ReadAll /\ Keep
XExhaust   == Exhaust /\ Keep
XGetData   == GetData /\ Keep
XGetText   == GetText /\ Keep
XGetTextOpen == GetTextOpen /\ Keep
XGetMedia  == GetMedia /\ Keep
XReadUntil == (\E d \in RDelims, n \in Sizes \cup {-1}, c \in BOOLEAN : ReadUntil(d, n, c)) /\ Keep
XNext == XAddPart \/ XSeal \/ XCorrupt \/ XServe \/ XFirst \/ XSkip \/ XNextAfterPartial \/ XNextAfterFull
         \/ XReadSome \/ XReadAll \/ XExhaust \/ XGetData \/ XGetText \/ XGetTextOpen \/ XGetMedia \/ XReadUntil

AAddPart   == (\E p \in PartPool : AddPart(p)) /\ Keep
ASeal      == (IF esel = NoEnv THEN \E e \in EnvPool : Seal(e) ELSE Seal(esel)) /\ Keep
ACorrupt   == (\E i \in EditPos, k \in EditKinds, v \in EditVals : Corrupt(i, k, v)) /\ Keep
AServe     == st = "sealed" /\ (\E lm \in LimitsOf(form, env) : Serve(lm)) /\ Keep
ANextPart  == Bound /\ NextPart /\ Log
AReadSome  == Bound /\ (\E n \in Sizes : ReadSome(n)) /\ Log
AReadAll   == Bound /\ ReadAll /\ Log
AExhaust   == Bound /\ Exhaust /\ Log
AGetData   == Bound /\ GetData /\ Log
AGetText   == Bound /\ GetText /\ Log
AGetTextOpen == Bound /\ GetTextOpen /\ Log
AGetMedia  == Bound /\ GetMedia /\ Log
AReadUntil == Bound /\ (\E d \in RDelims, n \in Sizes \cup {-1}, c \in BOOLEAN : ReadUntil(d, n, c)) /\ Log
MCNext == AAddPart \/ ASeal \/ ACorrupt \/ AServe \/ ANextPart \/ AReadSome \/ AReadAll \/ AExhaust
          \/ AGetData \/ AGetText \/ AGetTextOpen \/ AGetMedia \/ AReadUntil

MCInit  == Init /\ h = <<>> /\ esel = NoEnv
SimInit == Init /\ h = <<>> /\ esel \in EnvPool
MCvars == <<vars, h, esel>>

(* Multipart!BufferLimitExact and Multipart!Progress restated so that TLC need not re-evaluate the
   actions on every transition: a step from st = "part" whose last'.op is get_data / get_text is a
   GetData / GetText step, a step from "iter"/"part" to "part" whose last'.op is "next" is a NextPart step *)
MCBufferLimitExact ==
    [][(st = "part" /\ last'.op \in {"get_data", "get_text"} /\ cache = NONE /\ last'.out \notin {"none", "open"}) =>
          /\ ~toolarge => (last'.why = "size") = (pend - pos > lim.buf)
          /\ (Sent /\ pos = pstart) => ((last'.why = "size") = (Len(form[yielded].content) > lim.buf))
          /\ toolarge => (last'.out = "error" /\ last'.why = "size" /\ toolarge')
          /\ last'.out = "ok" => (pos' = pend /\ last'.res = Slice(body, pos, pend))]_MCvars
MCProgress == [][(st \in {"iter", "part"} /\ last'.op = "next" /\ st' = "part") => pos' > pos]_MCvars

(* behaviour export: one JSON object per finished iteration *)
Emit == (st \in {"end", "error"} \/ (Len(h) = Depth /\ st \in {"iter", "part"})) =>
            PrintT(ToJson([form |-> form, env |-> env, lim |-> lim, body |-> body,
                           edited |-> edited, ev |-> h]))
=============================================================================
