INIT SInit
NEXT SNext
CONSTANTS
  Stacks <- StackFull1
  Indeps <- OnlyIndep
  Targets <- OnlyRouted
  MaxHooks = 1
  InitRegs <- NoRegs
  RegClasses <- MRegClasses
  RegBehs <- SRegBehs2
  MaxRegs = 2
  RaiseClasses <- MRaise
  RenderClasses <- MRender
  Mro <- MCMro
  StatusOf <- MCStatus
  OwnVary <- MCOwnVary
  MaxReqs = 1
  WrongDesign = "none"
  SameObj = FALSE
  MaxFaults = 1
INVARIANT Emit
