SPECIFICATION MCSpec
CONSTANTS
  NR = 3
  Reqs <- MCReqs
  Keys <- MCKeys
  KeyOf <- MCKeyOf
  Segments = 5
  CoarseKey = TRUE
  SharedScratch = FALSE
INVARIANT SerialResponse
INVARIANT CacheIsFunctionOfKey
PROPERTY AllFinish
