---------------------------- MODULE MC_MediaCacheForm ----------------------------
EXTENDS MediaCacheForm, Json
(* scalar ids here are categories: 0 ascii str, 1 str needing escapes, 2 empty str, 3 non-ASCII str,
   4 astral str, 5 int, 6 bool, 7 bytes, 8 float *)
V(k, items) == [k |-> k, items |-> items]
SeqsLe(X, n) == UNION {[1..m -> X] : m \in 0..n}
Scalars == {V("s", <<c>>) : c \in 0..8}
Seqs    == {V(k, it) : k \in {"l", "t"}, it \in SeqsLe({0, 5}, 2)} \cup {V("l", <<6, 7>>), V("t", <<3, 2, 8>>)}
Values  == Scalars \cup Seqs
Small   == {V("s", <<c>>) : c \in {0, 2, 5}}
It(n, v) == [n |-> n, v |-> v]
DictMedias  == {[form |-> "dict", items |-> <<It(1, v)>>] : v \in Values}
               \cup {[form |-> "dict", items |-> <<It(1, v), It(2, w)>>] : v \in Values, w \in Values}
PairMedias  == {[form |-> "pairs", items |-> <<It(1, v)>>] : v \in Values}
               \cup {[form |-> "pairs", items |-> <<It(a, v), It(b, w)>>] : a \in 1..2, b \in 1..2, v \in Values, w \in Values}
               \cup {[form |-> "pairs", items |-> <<It(a, u), It(b, v), It(c, w)>>] : a \in 1..2, b \in 1..2, c \in 1..2, u \in Small, v \in Small, w \in Small}
               \cup {[form |-> "pairs", items |-> <<>>], [form |-> "dict", items |-> <<>>]}
MCMedias == DictMedias \cup PairMedias
Emit == phase = 2 => PrintT(ToJson([media |-> media, back |-> back]))
==================================================================================
