INIT Init
NEXT Next
CONSTANTS
  CheckDotDotPrefix = TRUE
  CheckAbsPrefix = TRUE
  CheckFinalDots = TRUE
  CheckFinalPrefix = TRUE
  PlusOne = FALSE
  UnsatGe = TRUE
  ImsLe = TRUE
  ImsLocalTime = FALSE
  ImsNotAfterNow = FALSE
  BigPositions = TRUE
  Tokens <- NoTokens
  MaxTokens = 0
  StartPaths <- SmallFiles
  Fbs <- NoFbOnly
  Ranges <- SmallRanges
  Zones <- UtcOnly
  ImsFor <- SmallIms
  Clocks <- PastOnly
  MStates <- AbsentOnly
  MaxReq = 1
  MemoResolved = FALSE
INVARIANT Containment
INVARIANT ServedIsInside
INVARIANT NothingElseIs404
INVARIANT MachineIsFunction
INVARIANT DesignMeetsProperty
INVARIANT FullExact
INVARIANT SliceExact
INVARIANT ContentRangeConsistent
INVARIANT ZeroSizeIgnoresRange
INVARIANT UnsatCarriesSize
INVARIANT NotModifiedNoBody
INVARIANT DecisionIndependentOfZone
INVARIANT DecisionIndependentOfClock
INVARIANT ResponseFollowsFileSystem
