INIT FInit
NEXT FNext
CONSTANTS
  Keys <- SimKeys
  HandlerIds = {1, 2}
  CTypes <- SimCTypes
  Defaults <- SimDefaults
  NoRaiseCalls <- MCNoRaise
  MaxObjs = 3
  MaxUpdate = 1
  ClearOnSet = TRUE
  ClearOnDelete = TRUE
  BareKeyShortcut = FALSE
  Depth = 10
INVARIANT NeverStale
INVARIANT MemoCoherent
INVARIANT FirstOfBest
INVARIANT EmitFull
