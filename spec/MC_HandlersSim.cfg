INIT FInit
NEXT FNext
CONSTANTS
  Keys <- SimKeys
  HandlerIds = {1, 2, 3}
  CTypes <- SimCTypes
  Defaults <- SimDefaults
  NoRaiseCalls <- MCNoRaise
  MaxObjs = 3
  MaxUpdate = 2
  ClearOnSet = TRUE
  ClearOnDelete = TRUE
  Depth = 8
INVARIANT NeverStale
INVARIANT MemoCoherent
INVARIANT EmitFull
