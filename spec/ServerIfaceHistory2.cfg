INIT Init
NEXT Next
CONSTANTS
  MaxRequests = 2
  SharedFallback = FALSE
INVARIANT ViewIndependentOfHistory
INVARIANT SeenNothingForeign
INVARIANT Emit
