---------------------------- MODULE ServerIface ----------------------------
(* C06: one abstract HTTP request, three ways of saying it.

   An abstract request is what a client puts on the wire: method, request target (raw
   bytes: percent-escapes, raw UTF-8, invalid sequences), query bytes, the ordered header
   list with its original casing and repetitions, body bytes and how they arrive, plus the
   connection facts a server knows (scheme, listening name/port, mount point, peer, version).

   ToEnviron      what a PEP 3333 server hands to a WSGI application
   ToScope        what an ASGI server hands to an ASGI application (scope + request events)
   ToClientArgs   what one passes to falcon.testing.simulate_request to say the same request
   Expressible    which requests an interface is able to say at all
   View           what application code is entitled to see of the request, computed from the
                  abstract request alone (method, decoded path, query, header map, content
                  type/length, host/port/netloc/scheme, mount point, peer, body)
   FromEnviron / FromScope   the same view recovered from an encoding only

   Text is Seq(0..255) (bytes, or latin-1 native strings of PEP 3333); a decoded path is a
   sequence of Unicode code points.  The module is unbounded; bounds live in MC_ServerIface. *)
EXTENDS Bytes, TLC

(* ------------------------------------------------------------------ bytes and numbers *)
LowerC(c) == IF c >= 65 /\ c <= 90 THEN c + 32 ELSE c
UpperC(c) == IF c >= 97 /\ c <= 122 THEN c - 32 ELSE c
LowerS(s) == [i \in 1..Len(s) |-> LowerC(s[i])]
UpperS(s) == [i \in 1..Len(s) |-> UpperC(s[i])]
Subst(s, a, b) == [i \in 1..Len(s) |-> IF s[i] = a THEN b ELSE s[i]]
IsDigitC(c) == c >= 48 /\ c <= 57
IsHexC(c)   == IsDigitC(c) \/ (c >= 65 /\ c <= 70) \/ (c >= 97 /\ c <= 102)
HexVal(c)   == IF IsDigitC(c) THEN c - 48 ELSE IF c >= 97 THEN c - 87 ELSE c - 55
AllDigits(s) == s # <<>> /\ \A i \in 1..Len(s) : IsDigitC(s[i])
RECURSIVE DecVal(_)
DecVal(s) == IF s = <<>> THEN 0 ELSE DecVal(SubSeq(s, 1, Len(s) - 1)) * 10 + (s[Len(s)] - 48)
RECURSIVE DecStr(_)
DecStr(n) == IF n < 10 THEN <<48 + n>> ELSE DecStr(n \div 10) \o <<48 + (n % 10)>>
RECURSIVE SumSeq(_)
SumSeq(s) == IF s = <<>> THEN 0 ELSE Head(s) + SumSeq(Tail(s))
RECURSIVE JoinSep(_, _)
JoinSep(ss, sep) == IF ss = <<>> THEN <<>>
                    ELSE IF Len(ss) = 1 THEN ss[1] ELSE ss[1] \o sep \o JoinSep(Tail(ss), sep)
Count(s, c) == Cardinality({i \in 1..Len(s) : s[i] = c})
IndexOf(s, c) == CHOOSE i \in 1..Len(s) : s[i] = c /\ \A j \in 1..(i - 1) : s[j] # c

(* ------------------------------------------------------------------ target decoding *)
(* percent-decoding: a '%' not followed by two hex digits stands for itself *)
RECURSIVE PctDecode(_)
PctDecode(s) ==
    IF s = <<>> THEN <<>>
    ELSE IF s[1] = 37 /\ Len(s) >= 3 /\ IsHexC(s[2]) /\ IsHexC(s[3])
         THEN <<16 * HexVal(s[2]) + HexVal(s[3])>> \o PctDecode(SubSeq(s, 4, Len(s)))
         ELSE <<s[1]>> \o PctDecode(Tail(s))

(* UTF-8 decoding (RFC 3629 table); every maximal ill-formed subpart yields ERR *)
ERR == -1
InR(s, i, lo, hi) == i <= Len(s) /\ s[i] >= lo /\ s[i] <= hi
Cont(s, i) == InR(s, i, 128, 191)
RECURSIVE U8(_, _)
U8(s, i) ==
    IF i > Len(s) THEN <<>>
    ELSE LET b == s[i] IN
      IF b < 128 THEN <<b>> \o U8(s, i + 1)
      ELSE IF b >= 194 /\ b <= 223 THEN
             (IF Cont(s, i + 1) THEN <<(b - 192) * 64 + (s[i + 1] - 128)>> \o U8(s, i + 2)
              ELSE <<ERR>> \o U8(s, i + 1))
      ELSE IF b >= 224 /\ b <= 239 THEN
             (LET lo == IF b = 224 THEN 160 ELSE 128
                  hi == IF b = 237 THEN 159 ELSE 191
              IN  IF ~InR(s, i + 1, lo, hi) THEN <<ERR>> \o U8(s, i + 1)
                  ELSE IF ~Cont(s, i + 2) THEN <<ERR>> \o U8(s, i + 2)
                  ELSE <<(b - 224) * 4096 + (s[i + 1] - 128) * 64 + (s[i + 2] - 128)>> \o U8(s, i + 3))
      ELSE IF b >= 240 /\ b <= 244 THEN
             (LET lo == IF b = 240 THEN 144 ELSE 128
                  hi == IF b = 244 THEN 143 ELSE 191
              IN  IF ~InR(s, i + 1, lo, hi) THEN <<ERR>> \o U8(s, i + 1)
                  ELSE IF ~Cont(s, i + 2) THEN <<ERR>> \o U8(s, i + 2)
                  ELSE IF ~Cont(s, i + 3) THEN <<ERR>> \o U8(s, i + 3)
                  ELSE <<(b - 240) * 262144 + (s[i + 1] - 128) * 4096 + (s[i + 2] - 128) * 64 + (s[i + 3] - 128)>>
                       \o U8(s, i + 4))
      ELSE <<ERR>> \o U8(s, i + 1)
Utf8Valid(s)  == LET d == U8(s, 1) IN \A i \in 1..Len(d) : d[i] # ERR
Utf8Decode(s) == LET d == U8(s, 1) IN [i \in 1..Len(d) |-> IF d[i] = ERR THEN 65533 ELSE d[i]]   \* U+FFFD

SLASH == 47
(* the request option strip_url_path_trailing_slash *)
StripSlash(o, p) == IF o.strip /\ Len(p) # 1 /\ p # <<>> /\ p[Len(p)] = SLASH THEN SubSeq(p, 1, Len(p) - 1) ELSE p
OrRoot(p) == IF p = <<>> THEN <<SLASH>> ELSE p

(* ------------------------------------------------------------------ header lists *)
H(n, v) == [n |-> n, v |-> v]

HOST  == <<104, 111, 115, 116>>
CLEN  == <<99, 111, 110, 116, 101, 110, 116, 45, 108, 101, 110, 103, 116, 104>>
CTYPE == <<99, 111, 110, 116, 101, 110, 116, 45, 116, 121, 112, 101>>
UA    == <<117, 115, 101, 114, 45, 97, 103, 101, 110, 116>>
COOKIE == <<99, 111, 111, 107, 105, 101>>
(* header fields HTTP defines as single-valued: repeating one is malformed, and PEP 3333 has no
   way of showing two of them, so what an application sees then is server-defined *)
Singletons == {CLEN, CTYPE, COOKIE, HOST, UA,
               <<101, 120, 112, 101, 99, 116>>,                                  \* expect
               <<102, 114, 111, 109>>,                                            \* from
               <<109, 97, 120, 45, 102, 111, 114, 119, 97, 114, 100, 115>>,       \* max-forwards
               <<114, 101, 102, 101, 114, 101, 114>>}                             \* referer

NamesOf(hs)     == {LowerS(hs[i].n) : i \in 1..Len(hs)}
HasHeader(hs, n) == n \in NamesOf(hs)
ValuesOf(hs, n) == LET sel == SelectSeq(hs, LAMBDA h : LowerS(h.n) = n) IN [i \in 1..Len(sel) |-> sel[i].v]
Occurrences(hs, n) == Len(ValuesOf(hs, n))
COMMA == <<44>>
(* header map: one entry per field name (case-insensitive), repeated list-valued fields combined
   with a comma in the order received (RFC 9110 section 5.3) *)
HeaderMap(hs) == {<<n, JoinSep(ValuesOf(hs, n), COMMA)>> : n \in NamesOf(hs)}
Lookup(m, n)  == (CHOOSE p \in m : p[1] = n)[2]
Has(m, n)     == \E p \in m : p[1] = n
Canonical(hs) == \A n \in Singletons : Occurrences(hs, n) <= 1

(* host[:port] for registered names and IPv4 literals *)
COLON == 58
HostName(v) == IF Count(v, COLON) = 1 THEN SubSeq(v, 1, IndexOf(v, COLON) - 1) ELSE v
HostPort(v, dflt) == IF Count(v, COLON) = 1 THEN DecVal(SubSeq(v, IndexOf(v, COLON) + 1, Len(v))) ELSE dflt
DefaultPort(scheme) == IF scheme = "https" THEN 443 ELSE 80
(* authority a client derives from (name, port): the default port of the scheme is elided *)
Authority(name, port, scheme) == IF port = DefaultPort(scheme) THEN name ELSE name \o <<COLON>> \o DecStr(port)

(* ------------------------------------------------------------------ well-formed requests *)
TokenC(c) == (c >= 48 /\ c <= 57) \/ (c >= 65 /\ c <= 90) \/ (c >= 97 /\ c <= 122) \/ c = 45    \* no '_' (see below)
WellFormed(r) ==
    /\ r.target # <<>> /\ r.target[1] = SLASH
    /\ \A i \in 1..Len(r.target) : r.target[i] > 32 /\ r.target[i] \notin {35, 63, 127}        \* no SP, '#', '?'
    /\ \A i \in 1..Len(r.query) : r.query[i] > 32 /\ r.query[i] < 127 /\ r.query[i] # 35        \* ASCII, no '#'
    /\ (r.query # <<>> => r.query[1] # 63)
    /\ \A i \in 1..Len(r.headers) :
          /\ r.headers[i].n # <<>> /\ \A k \in 1..Len(r.headers[i].n) : TokenC(r.headers[i].n[k])
          /\ LET v == r.headers[i].v IN
               /\ \A k \in 1..Len(v) : v[k] >= 32 /\ v[k] # 127
               /\ (v # <<>> => v[1] # 32 /\ v[Len(v)] # 32)
    \* framing: a body is announced by Content-Length, and a numeric Content-Length is truthful
    /\ (r.body # <<>> => HasHeader(r.headers, CLEN))
    /\ \A i \in 1..Len(r.headers) :
          (LowerS(r.headers[i].n) = CLEN /\ AllDigits(r.headers[i].v)) => DecVal(r.headers[i].v) = Len(r.body)
    /\ SumSeq(r.chunks) <= Len(r.body)
    \* Host values are name[:digits]
    /\ \A i \in 1..Len(r.headers) :
          LowerS(r.headers[i].n) = HOST =>
             LET v == r.headers[i].v IN
               /\ v # <<>> /\ Count(v, COLON) <= 1 /\ v[1] \notin {COLON, 91}
               /\ (Count(v, COLON) = 1 => AllDigits(SubSeq(v, IndexOf(v, COLON) + 1, Len(v))))
    /\ (r.version = "1.1" => HasHeader(r.headers, HOST))            \* RFC 9112 section 3.2
    /\ (r.root # <<>> => r.root[1] = SLASH /\ Len(r.root) > 1)

(* ------------------------------------------------------------------ the view an application is entitled to *)
NONE == -1
INVALID == -2
ClenOf(m) == IF ~Has(m, CLEN) \/ Lookup(m, CLEN) = <<>> THEN NONE
             ELSE IF AllDigits(Lookup(m, CLEN)) THEN DecVal(Lookup(m, CLEN)) ELSE INVALID

ViewOf(method, path, query, m, scheme, sname, sport, root, peer, body) ==
    [method |-> method, path |-> path, query |-> query, hmap |-> m,
     has_ctype |-> Has(m, CTYPE), ctype |-> IF Has(m, CTYPE) THEN Lookup(m, CTYPE) ELSE <<>>,
     clen |-> ClenOf(m),
     host |-> IF Has(m, HOST) THEN HostName(Lookup(m, HOST)) ELSE sname,
     port |-> IF Has(m, HOST) THEN HostPort(Lookup(m, HOST), DefaultPort(scheme)) ELSE sport,
     netloc |-> IF Has(m, HOST) THEN Lookup(m, HOST) ELSE Authority(sname, sport, scheme),
     scheme |-> scheme, root |-> root, peer |-> peer, body |-> body]

View(r, o) == ViewOf(r.method, StripSlash(o, OrRoot(Utf8Decode(PctDecode(r.target)))), r.query,
                     HeaderMap(r.headers), r.scheme, r.server.name, r.server.port, r.root, r.peer, r.body)

(* ------------------------------------------------------------------ PEP 3333 *)
HTTP_ == <<72, 84, 84, 80, 95>>
CgiName(n) == LET k == Subst(UpperS(n), 45, 95)
              IN  IF LowerS(n) \in {CLEN, CTYPE} THEN k ELSE HTTP_ \o k
(* distinct folded names in order of first occurrence *)
RECURSIVE FirstNames(_, _)
FirstNames(hs, seen) == IF hs = <<>> THEN <<>>
                        ELSE IF LowerS(hs[1].n) \in seen THEN FirstNames(Tail(hs), seen)
                        ELSE <<LowerS(hs[1].n)>> \o FirstNames(Tail(hs), seen \cup {LowerS(hs[1].n)})
ToEnviron(r) ==
    [REQUEST_METHOD  |-> r.method,
     SCRIPT_NAME     |-> r.root,
     PATH_INFO       |-> PctDecode(r.target),                    \* bytes tunnelled as latin-1
     QUERY_STRING    |-> r.query,
     SERVER_NAME     |-> r.server.name,
     SERVER_PORT     |-> DecStr(r.server.port),
     SERVER_PROTOCOL |-> r.version,
     REMOTE_ADDR     |-> r.peer,
     url_scheme      |-> r.scheme,
     \* one variable per field name; a repeated list-valued field is combined by the server
     vars  |-> LET ns == FirstNames(r.headers, {}) IN
               [i \in 1..Len(ns) |-> [k |-> CgiName(ns[i]), v |-> JoinSep(ValuesOf(r.headers, ns[i]), COMMA)]],
     \* wsgi.input is a blocking file-like object: read(n) returns n bytes unless the body ends, so how the
     \* body arrived is invisible to a WSGI application (short reads are the subject of BodyStream / C07)
     input |-> r.body]

CgiToField(k) == LET s == IF IsPrefix(HTTP_, k) THEN Drop(k, 5) ELSE k IN LowerS(Subst(s, 95, 45))
FromEnviron(e, o) ==
    ViewOf(e.REQUEST_METHOD, StripSlash(o, OrRoot(Utf8Decode(e.PATH_INFO))), e.QUERY_STRING,
           {<<CgiToField(e.vars[i].k), e.vars[i].v>> : i \in 1..Len(e.vars)},
           e.url_scheme, e.SERVER_NAME, DecVal(e.SERVER_PORT), e.SCRIPT_NAME, e.REMOTE_ADDR, e.input)

(* ------------------------------------------------------------------ ASGI *)
RECURSIVE Events(_, _)
Events(body, chunks) ==
    IF chunks = <<>> THEN <<[body |-> body, more |-> FALSE]>>
    ELSE <<[body |-> Take(body, chunks[1]), more |-> TRUE]>> \o Events(Drop(body, Min(chunks[1], Len(body))), Tail(chunks))
ToScope(r) ==
    [method |-> r.method, scheme |-> r.scheme, http_version |-> r.version,
     path |-> Utf8Decode(PctDecode(r.target)), raw_path |-> r.target, query_string |-> r.query,
     root_path |-> r.root,
     headers |-> [i \in 1..Len(r.headers) |-> H(LowerS(r.headers[i].n), r.headers[i].v)],   \* all of them, in order
     client |-> r.peer, server |-> r.server,
     events |-> Events(r.body, r.chunks)]

RECURSIVE Gather(_)
Gather(evs) == IF evs = <<>> THEN <<>> ELSE evs[1].body \o (IF evs[1].more THEN Gather(Tail(evs)) ELSE <<>>)
FromScope(s, o) ==
    ViewOf(s.method, StripSlash(o, OrRoot(s.path)), s.query_string, HeaderMap(s.headers),
           s.scheme, s.server.name, s.server.port, s.root_path, s.client, Gather(s.events))

(* ------------------------------------------------------------------ falcon.testing.simulate_request *)
ToClientArgs(r) ==
    [method |-> r.method, path |-> r.target, query_string |-> r.query,
     headers |-> r.headers,                                     \* every field, as a list of pairs
     has_body |-> r.body # <<>>, body |-> r.body,
     protocol |-> r.scheme, host |-> r.server.name, port |-> r.server.port, http_version |-> r.version,
     root_path |-> r.root, remote_addr |-> r.peer,
     asgi_chunk_size |-> IF r.chunks = <<>> THEN 4096 ELSE Max(1, r.chunks[1])]

(* the request a simulated call stands for, as documented: headers the caller gives are sent;
   User-Agent, Host (HTTP/1.1 and later) and Content-Length (when there is a body) are supplied
   when the caller did not give them *)
ClientSends(a) ==
    LET h1 == IF HasHeader(a.headers, UA) THEN a.headers ELSE Append(a.headers, H(UA, <<102>>))
        h2 == IF a.http_version = "1.0" \/ HasHeader(h1, HOST) THEN h1
              ELSE Append(h1, H(HOST, Authority(a.host, a.port, a.protocol)))
        h3 == IF ~a.has_body \/ HasHeader(h2, CLEN) THEN h2 ELSE Append(h2, H(CLEN, DecStr(Len(a.body))))
    IN  [method |-> a.method, target |-> a.path, query |-> a.query_string, headers |-> h3,
         body |-> IF a.has_body THEN a.body ELSE <<>>, chunks |-> <<>>,
         scheme |-> a.protocol, server |-> [name |-> a.host, port |-> a.port], root |-> a.root_path,
         peer |-> a.remote_addr, version |-> a.http_version]

(* ------------------------------------------------------------------ who can say what *)
Ifaces == {"raw-wsgi", "raw-asgi", "client-wsgi", "client-asgi"}
ClientExpressible(r) ==
    /\ Utf8Valid(r.target)                      \* the path argument is text
    /\ HasHeader(r.headers, UA)                 \* the client always sends a User-Agent
    /\ (r.version # "1.0" => HasHeader(r.headers, HOST))
    \* Content-Length is derived from the body argument; the helpers validate a given one
    /\ \A i \in 1..Len(r.headers) : LowerS(r.headers[i].n) = CLEN => AllDigits(r.headers[i].v)
Expressible(r, iface) ==
    CASE iface = "raw-wsgi"  -> Canonical(r.headers)      \* environ holds one value per field
      [] iface = "raw-asgi"  -> TRUE
      [] OTHER               -> ClientExpressible(r)

(* ------------------------------------------------------------------ design-level properties *)
(* From either server encoding exactly the view of the abstract request is recoverable. *)
EncodingsCarrySameInformation(r, o) ==
    /\ (Expressible(r, "raw-wsgi") => FromEnviron(ToEnviron(r), o) = View(r, o))
    /\ (Canonical(r.headers) => FromScope(ToScope(r), o) = View(r, o))
(* A request that is expressible to the test client is the request the client call stands for. *)
ClientRoundTrip(r, o) ==
    Expressible(r, "client-wsgi") => View(ClientSends(ToClientArgs(r)), o) = View(r, o)

(* ------------------------------------------------------------------ generated application logic *)
(* Responders of the generated application.  A "plain" responder sets a status, any COMBINATION of the
   body sources -- text, data, media each left unset, set to the empty value ('', b'', {}) or to a
   non-empty one; a stream or none -- and optionally a Content-Type of its own
   (p = [status, text, data, media, stream, ctype, script]); the other kinds are fixed scripts (errors,
   redirects, cookies, repeated fields ...).  p.script says how the body comes about: "direct" = the
   framework renders it once at the end; "early" = the application itself calls render_body() first and
   copies a digest of the bytes into a header (an ETag computed from the body); "early-mutate" = after
   that it changes the media object in place.  Each must produce its status once reached; which source wins is C05's
   subject, here the four drivers must show the same response. *)
Tri == {"unset", "empty", "set"}
Scripts == {"direct", "early", "early-mutate"}
NoPlain == [status |-> 200, text |-> "unset", data |-> "unset", media |-> "unset", stream |-> FALSE, ctype |-> FALSE,
            script |-> "direct"]
ResponderStatus(k, p) ==
    CASE k = "plain" -> p.status
      [] k = "echo" -> 200 [] k = "text" -> 201 [] k = "data" -> 200 [] k = "stream" -> 200
      [] k = "error" -> 400 [] k = "notfound" -> 404 [] k = "redirect" -> 302 [] k = "status" -> 202
      [] k = "nocontent" -> 204 [] k = "uncaught" -> 500 [] k = "invalidhdr" -> 400 [] k = "media" -> 200
      [] OTHER -> 0
(* Which interface can report the response at all: the WSGI test client passes every response through
   wsgiref.validate (documented), which refuses a Content-Type on a 204/304; the application-set one is
   kept by the framework, so that driver raises instead of returning a result. *)
(* An application that renders its media itself thereby fills in the Content-Type (documented side effect
   of rendering resp.media), just as if it had set one. *)
AppSetsContentType(p) == p.ctype \/ (p.script # "direct" /\ p.text = "unset" /\ p.data = "unset" /\ p.media # "unset")
Reportable(iface, k, p) ==
    iface = "client-wsgi" => ~(k = "plain" /\ p.status \in {204, 304} /\ AppSetsContentType(p))

(* ------------------------------------------------------------------ response side: body sources delivered incrementally *)
(* Instead of bytes a responder may hand the framework a body SOURCE (resp.stream):
     "file"  a file-like object: read(n).  Sync on WSGI, where it is consumed either by the framework's own
             iterator or by the server's wsgi.file_wrapper; async on ASGI.
     "iter"  an iterable (WSGI) / async iterable (ASGI) of chunks.
   A source holds data d and delivers it in blocks whose sizes the SOURCE alone decides (a pipe, a socket, a
   decompressor): `sizes` is its delivery pattern.
     file-like: read(n) returns the next block -- never empty before the end, never more than n bytes, possibly
                FEWER than n bytes although more data follows.  The end of the data is signalled by b'' and by
                nothing else.
     iterable:  yields the blocks, empty ones included; the end is the exhaustion of the iterator.
   The response body is the concatenation of everything the source delivers until it signals the end
   (state machine, invariants BodyIsWholeSource / ResponseEqualAcrossStacks and the wrong-design switches in
   ServerIfaceDelivery.tla). *)
SourceKinds == {"file", "iter"}
StackConsumers == {"wsgi", "wsgi-file-wrapper", "asgi"}
ConsumersOf(kind) == IF kind = "file" THEN StackConsumers ELSE {"wsgi", "asgi"}      \* an iterable is not wrapped
MinBlock(kind) == IF kind = "file" THEN 1 ELSE 0
(* a legal delivery of d by a source of this kind, n = the block size the consumer asks for *)
DeliveryOK(kind, d, sizes, n) ==
    /\ SumSeq(sizes) = Len(d)
    /\ \A i \in 1..Len(sizes) : sizes[i] >= MinBlock(kind) /\ (kind = "file" => sizes[i] <= n)
RECURSIVE Blocks(_, _)
Blocks(d, sizes) == IF sizes = <<>> THEN <<>> ELSE <<Take(d, sizes[1])>> \o Blocks(Drop(d, sizes[1]), Tail(sizes))
WholeSource(d, sizes) == Concat(Blocks(d, sizes))
OCTETS == <<97, 112, 112, 108, 105, 99, 97, 116, 105, 111, 110, 47, 111, 99, 116, 101, 116, 45, 115, 116, 114, 101, 97, 109>>   \* application/octet-stream
(* the response of a streaming responder p = [status, announce] over data d whose delivery yielded `body`:
   a Content-Length appears iff the responder announced one (resp.content_length = len(d)); neither stack adds one *)
StreamedResponse(p, d, body) ==
    [status |-> p.status, ctype |-> OCTETS, has_clen |-> p.announce, clen |-> IF p.announce THEN Len(d) ELSE NONE,
     body |-> body]
(* the six ways a streamed response is produced and observed: raw server drivers and falcon.testing, the WSGI ones
   with and without a wsgi.file_wrapper in the environ *)
DeliveryDrivers == {"raw-wsgi", "raw-wsgi-fw", "raw-asgi", "client-wsgi", "client-wsgi-fw", "client-asgi"}
ConsumerOf(driver, kind) ==
    CASE driver \in {"raw-asgi", "client-asgi"} -> "asgi"
      [] driver \in {"raw-wsgi-fw", "client-wsgi-fw"} /\ kind = "file" -> "wsgi-file-wrapper"
      [] OTHER -> "wsgi"

(* ------------------------------------------------------------------ histories *)
(* One application object serves many requests.  The mutable containers the API hands out with a
   request or its response (req.params, req.context, the req.cookies / req.headers mappings, the
   env / scope of the request, resp.context) belong to that request: what the application writes into
   them while serving request k is invisible to every later request.  Hence the view of request n --
   the containers' initial content included -- is a function of request n alone
   (ViewIndependentOfHistory; state machine and wrong-design switch in ServerIfaceHistory.tla). *)
Containers == {"params", "context", "cookies", "headers", "extras", "resp_context"}
ViewInHistory(h, n, o) == View(h[n], o)        \* h: sequence of requests served by one application object

=============================================================================
