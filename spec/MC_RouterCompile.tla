----------------------- MODULE MC_RouterCompile -----------------------
EXTENDS RouterCompile, Json
CONSTANT NT
MCThreads == 1..NT
MCWant == [t \in MCThreads |-> ((t - 1) % NRoutes) + 1]
(* named per-line actions, so coverage shows every line fired *)
AReadFind   == \E t \in Threads : ReadFind(t)
AReadArgs   == \E t \in Threads : ReadArgs(t)
ACall       == \E t \in Threads : Call(t)
AAcquire    == \E t \in Threads : Acquire(t)
ARecheck    == \E t \in Threads : DoRecheck(t)
AResetRv    == \E t \in Threads : ResetRv(t)
AResetConv  == \E t \in Threads : ResetConv(t)
AHandRv     == \E t \in Threads : HandRv(t)
AConvLen    == \E t \in Threads : ConvLen(t)
AConvAppend == \E t \in Threads : ConvAppend(t)
ARvLen      == \E t \in Threads : RvLen(t)
ARvAppend   == \E t \in Threads : RvAppend(t)
APublish    == \E t \in Threads : Publish(t)
ARelease    == \E t \in Threads : Release(t)
AReadFind2  == \E t \in Threads : ReadFind2(t)
MCNext == AReadFind \/ AReadArgs \/ ACall \/ AAcquire \/ ARecheck \/ AResetRv \/ AResetConv \/ AHandRv \/ AConvLen
          \/ AConvAppend \/ ARvLen \/ ARvAppend \/ APublish \/ ARelease \/ AReadFind2
MCSpec == Init /\ [][MCNext]_vars /\ \A t \in Threads : WF_vars(Step(t))
=======================================================================
