------------------------ MODULE HeaderAccessTrace ------------------------
(* Trace judge for C09.  Reads a JSON list of traces recorded from real request objects:
     [req |-> <request as in HeaderAccessOps>, ev |-> << [a |-> accessor, hn |-> header name, o |-> observation] >>]
   observation = [k \in {"value", "err400", "exc"}, s, i, l] (the harness' projection of what the
   accessor returned or raised).  Every trace is an initial state; the judge is total: it consumes
   every event and records the first failing clause:
     P:total   an accessor raised something that is not a 400-class HTTP error
     P:value   the header is valid at token level and the accessor did not return the specified value
     P:memo    a repeated read of the same accessor answered differently from the first read
     D:doc400  (detail) a multi-range did not give the documented 400                          *)
EXTENDS HeaderAccessOps, Json, IOUtils

Traces == JsonDeserialize(IOEnv.TRACE_FILE)

VARIABLES tid, l, verdict, detail
vars == <<tid, l, verdict, detail>>

T  == Traces[tid]
Ev == T.ev[l]

Init == tid \in 1..Len(Traces) /\ l = 1 /\ verdict = "ok" /\ detail = 0

Expected == IF Ev.a = "get_header" THEN Lookup(T.req, Ev.hn) ELSE Fresh(T.req, Ev.a)
SameAsBefore == \A j \in 1..(l - 1) : (T.ev[j].a = Ev.a /\ T.ev[j].hn = Ev.hn) => T.ev[j].o = Ev.o

Judge == LET v == Accepts(Expected, Ev.o)
         IN  IF v \in {"P:total", "P:value"} THEN v
             ELSE IF ~SameAsBefore THEN "P:memo"
             ELSE IF v = "D:obs400" THEN "ok"          \* an obs-date refused without obs_date=True: documented
             ELSE v

Step == /\ l >= 1 /\ l <= Len(T.ev) /\ verdict = "ok"
        /\ LET v == Judge IN
             /\ verdict' = (IF v = "D:doc400" THEN "ok" ELSE v)
             /\ detail'  = (IF v = "D:doc400" /\ detail = 0 THEN l ELSE detail)
        /\ l' = l + 1 /\ UNCHANGED tid

Done == /\ l >= 1 /\ (l > Len(T.ev) \/ verdict # "ok")
        /\ PrintT(<<"VERDICT", tid, IF verdict = "ok" /\ detail > 0 THEN "D:doc400" ELSE verdict,
                    IF verdict = "ok" /\ detail > 0 THEN detail ELSE l - 1>>)
        /\ l' = -1 /\ UNCHANGED <<tid, verdict, detail>>

Next == Step \/ Done
Spec == Init /\ [][Next]_vars
Sound == detail >= 0
==========================================================================
