INIT XInit
NEXT XNext
CONSTANTS
  Templates <- CxRepoTemplates
  ResKinds <- CxResKinds
  SinkPats <- CxRootSink
  StaticPrefixes <- RStaticPrefixes
  Methods <- CxMethods
  Paths <- CxPaths
  MaxCalls = 3
  NewestFirst = TRUE
  RoutesFirst = TRUE
INVARIANT InvNoDeadEndMasking405
