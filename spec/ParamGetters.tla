---------------------------- MODULE ParamGetters ----------------------------
(* C08, getters half: one request parameter and a HISTORY of typed getter calls on that one request
   (protocol of a single call in ParamGettersOps).  The request's parameter never changes (getters only
   read it), every call's outcome is the one the protocol gives for the unchanged parameter whatever
   was called before, and the caller's store dict is shared by the calls.  The clauses of the property
   are invariants over <<parameter, call, outcome, store>> and action properties over the steps. *)
EXTENDS ParamGettersOps


CONSTANTS Kinds,            \* getter kinds of the instance
          NV,               \* number of pool values; values are 1..NV
          MaxOcc,           \* maximum number of occurrences of the parameter
          Conv(_, _),       \* Conv(kind, value) = [ok, v]: the reference conversion table
          Bounds(_)         \* candidate min/max values of a bounded kind

VARIABLES present, vals,    \* the parameter: absent, or its values
          zero,             \* ... or present with zero values (then present = FALSE, vals = <<>>)
          call,             \* "none" | the call made
          last,             \* its outcome
          store,            \* the caller's store dict for the name: [set |-> BOOLEAN, v, vs]
          ncalls            \* number of calls made so far

vars == <<present, vals, zero, call, last, store, ncalls>>

NoCall == [kind |-> "none", required |-> FALSE, hasdef |-> FALSE, store |-> FALSE,
           hasmin |-> FALSE, min |-> 0, hasmax |-> FALSE, max |-> 0, bat |-> FALSE]
Unset  == [set |-> FALSE, v |-> 0, vs |-> <<>>]

Init == /\ \/ present = FALSE /\ vals = <<>> /\ zero \in BOOLEAN
           \/ present = TRUE /\ zero = FALSE /\ vals \in UNION {[1..n -> 1..NV] : n \in 1..MaxOcc}
        /\ call = NoCall /\ last = Out("none", "", 0, <<>>, FALSE) /\ store = Unset /\ ncalls = 0

ConvsOf(kind) == IF kind = "has" THEN <<>> ELSE [i \in 1..Len(vals) |-> Conv(IF kind = "list_int" THEN "int" ELSE IF kind = "list" THEN "str" ELSE kind, vals[i])]

Get(c) ==
    /\ c.kind \in Kinds /\ ncalls' = ncalls + 1
    /\ \E o \in Outcomes(present, zero, ConvsOf(c.kind), c) :
           /\ last' = o
           /\ store' = IF o.stored THEN [set |-> TRUE, v |-> o.v, vs |-> o.vs] ELSE store
    /\ call' = c /\ UNCHANGED <<present, vals, zero>>

Plain(kind, r, d, s) == [NoCall EXCEPT !.kind = kind, !.required = r, !.hasdef = d, !.store = s]

GetPlain(kind) == \E r, d, s \in BOOLEAN : Get(Plain(kind, r, d, s))
HasParam == Get([NoCall EXCEPT !.kind = "has"])
GetBool == \E r, d, s, b \in BOOLEAN : Get([Plain("bool", r, d, s) EXCEPT !.bat = b])
GetBounded(kind) ==
    \E r, d, s, hmin, hmax \in BOOLEAN : \E mn, mx \in Bounds(kind) :
        /\ (~hmin => mn = 0) /\ (~hmax => mx = 0)
        /\ Get([Plain(kind, r, d, s) EXCEPT !.hasmin = hmin, !.min = mn, !.hasmax = hmax, !.max = mx])

Next == \/ \E k \in Kinds \ (BoundedKinds \cup {"bool", "has"}) : GetPlain(k)
        \/ HasParam
        \/ GetBool \/ GetBounded("int") \/ GetBounded("float")
Spec == Init /\ [][Next]_vars

(* ---- laws ---- *)
Made == call # NoCall
LastConv == Conv(call.kind, vals[Len(vals)])

(* a value is only ever reported for a present parameter whose last occurrence converts, and it IS
   that conversion, within the bounds asked for *)
GetterNeverMisreports ==
    (Made /\ last.res = "value" /\ call.kind \notin ListKinds \cup {"has"}) =>
        /\ present /\ LastConv.ok
        /\ (call.kind # "bool" \/ LastConv.v # 2) => last.v = LastConv.v
        /\ (call.kind = "bool" /\ LastConv.v = 2) => last.v = (IF call.bat THEN 1 ELSE 0)
        /\ (call.kind \in BoundedKinds /\ call.hasmin) => last.v >= call.min
        /\ (call.kind \in BoundedKinds /\ call.hasmax) => last.v <= call.max
ListsReportAll ==
    (Made /\ last.res = "value" /\ call.kind \in ListKinds) => (present \/ zero) /\ Len(last.vs) = Len(vals)
(* absent parameter: error iff required, else exactly the default *)
HasParamExact ==
    (Made /\ call.kind = "has") => /\ last.res = "value" /\ ~last.stored
                                   /\ (~zero => last.v = (IF present THEN 1 ELSE 0)) /\ last.v \in {0, 1}
AbsentProtocol ==
    (Made /\ ~present /\ ~zero /\ call.kind # "has") => last.res = (IF call.required THEN "missing" ELSE IF call.hasdef THEN "default" ELSE "none")
(* present with zero values: every scalar getter behaves as for an absent parameter, nothing is stored *)
ZeroValuesProtocol ==
    (Made /\ zero /\ call.kind \notin ListKinds \cup {"has"}) =>
        /\ last.res = (IF call.required THEN "missing" ELSE IF call.hasdef THEN "default" ELSE "none")
        /\ ~last.stored
(* present parameter: required/default play no role; the outcome is a value or the 400-class error *)
PresentProtocol ==
    (Made /\ present) => last.res \in {"value", "invalid"}
(* the store is written exactly when a value is returned and a store was passed; it then holds that value;
   across a history it is never touched otherwise *)
StoreOnlyOnSuccess ==
    Made => /\ (last.stored <=> (last.res = "value" /\ call.store))
            /\ (last.stored => store = [set |-> TRUE, v |-> last.v, vs |-> last.vs])
            /\ (ncalls = 1 => (store.set <=> last.stored))
StoreUntouchedOtherwise == [][(store' # store) => (last'.res = "value" /\ call'.store)]_vars
(* getters only read: the request's parameter is the same after any number of calls *)
ReadOnly == [][UNCHANGED <<present, vals, zero>>]_vars
(* ... and what a call reports does not depend on what was called before *)
HistoryFree == Made => last \in Outcomes(present, zero, ConvsOf(call.kind), call)
(* only the last occurrence matters for the scalar getters *)
LastOccurrenceOnly ==
    (Made /\ present /\ call.kind \notin ListKinds \cup {"has"}) =>
        last \in Outcomes(TRUE, FALSE, <<LastConv>>, call)      \* (a singleton unless the spelling is lenient/open)
(* a spelling the conversion rejects is never reported as a value and never stored; a pinned (exact) spelling is
   always reported (ScalarLex decides which is which: Conv of the Lex configuration) *)
RejectedNeverStored ==
    (Made /\ present /\ call.kind \notin ListKinds \cup {"has"} /\ ~LastConv.ok) => (last.res = "invalid" /\ ~last.stored /\ (ncalls = 1 => ~store.set))
PinnedAlwaysReported ==
    (Made /\ present /\ call.kind \notin ListKinds \cup BoundedKinds \cup {"has"} /\ LastConv.ok /\ ~IsLenient(LastConv) /\ ~IsOpen(LastConv))
        => last.res = "value"
=============================================================================
