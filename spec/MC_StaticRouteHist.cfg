INIT Init
NEXT Next
CONSTANTS
  CheckDotDotPrefix = TRUE
  CheckAbsPrefix = TRUE
  CheckFinalDots = TRUE
  CheckFinalPrefix = TRUE
  PlusOne = TRUE
  UnsatGe = TRUE
  ImsLe = TRUE
  ImsLocalTime = FALSE
  ImsNotAfterNow = FALSE
  BigPositions = TRUE
  Tokens <- NoTokens
  MaxTokens = 0
  StartPaths <- HistFiles
  Fbs <- AllFbs
  Ranges <- HistRanges
  Zones <- UtcOnly
  ImsFor <- NoImsOnly
  Clocks <- PastOnly
  MStates <- AnyM
  MaxReq = 3
  MemoResolved = FALSE
INVARIANT Containment
INVARIANT ServedIsInside
INVARIANT NothingElseIs404
INVARIANT MachineIsFunction
INVARIANT DesignMeetsProperty
INVARIANT FullExact
INVARIANT SliceExact
INVARIANT ContentRangeConsistent
INVARIANT ZeroSizeIgnoresRange
INVARIANT UnsatCarriesSize
INVARIANT NotModifiedNoBody
INVARIANT DecisionIndependentOfZone
INVARIANT DecisionIndependentOfClock
INVARIANT ResponseFollowsFileSystem
INVARIANT EmitHist
