INIT Init
NEXT Next
CONSTANTS
  CheckDotDotPrefix = FALSE
  CheckAbsPrefix = TRUE
  CheckFinalDots = FALSE
  CheckFinalPrefix = TRUE
  PlusOne = TRUE
  UnsatGe = TRUE
  ImsLe = TRUE
  ImsLocalTime = FALSE
  ImsNotAfterNow = FALSE
  BigPositions = TRUE
  Tokens <- AttackTokens
  MaxTokens = 2
  StartPaths <- AttackSeeds
  Fbs <- AllFbs
  Ranges <- NoRangeOnly
  Zones <- UtcOnly
  ImsFor <- NoImsOnly
  Clocks <- PastOnly
  MStates <- AbsentOnly
  MaxReq = 1
  MemoResolved = FALSE
INVARIANT Containment
INVARIANT ServedIsInside
INVARIANT NothingElseIs404
INVARIANT MachineIsFunction
INVARIANT DesignMeetsProperty
INVARIANT FullExact
INVARIANT SliceExact
INVARIANT ContentRangeConsistent
INVARIANT ZeroSizeIgnoresRange
INVARIANT UnsatCarriesSize
INVARIANT NotModifiedNoBody
INVARIANT DecisionIndependentOfZone
INVARIANT DecisionIndependentOfClock
INVARIANT ResponseFollowsFileSystem
