INIT SInit
NEXT SNext
CONSTANTS
  NR = 2
  Reqs <- MCReqs
  Keys <- MCKeys
  KeyOf <- MCKeyOf
  Segments = 6
  CoarseKey = FALSE
  SharedScratch = FALSE
INVARIANT SerialResponse
INVARIANT Emit
