INIT Init
NEXT Next
INVARIANT Sound
