INIT MCInit
NEXT MCNext
CONSTANTS
  Templates = {}
  ResKinds = {}
  SinkPats = {}
  StaticPrefixes = {}
  MaxCalls = 0
  NewestFirst = TRUE
  RoutesFirst = TRUE
  OtherForAll = TRUE
  EmptyMeansAll = FALSE
  StatusSucceeds = FALSE
  AliasCallerSet = FALSE
  MemoDecision = FALSE
  StarWithCreds = FALSE
INVARIANT OnlyAllowedOrigins
INVARIANT NoOriginUntouched
INVARIANT GrantIsEchoOrStar
INVARIANT CredentialsOnlyIfConfigured
INVARIANT NoWildcardWithCredentials
INVARIANT PreflightOnlyOnSuccessWithAllow
INVARIANT AllowRemovedOnPreflight
INVARIANT DeniedPreflightWithdrawsGrants
INVARIANT NoApprovalAfterRaise
INVARIANT AllowOtherwiseKept
INVARIANT GrantFunctionOfConfigAndRequest
INVARIANT Emit
