INIT WInit
NEXT HNext
CONSTANTS
  Datas <- MCDatas
  Scripts <- MCScripts
  CLs <- SimCLs
  Sizes <- SimSizes
  ShortReads = TRUE
  ChargeByRequested = FALSE
  BoundLineOps = TRUE
  TruncateChunks = TRUE
  CountTruncated = TRUE
  HonourDisconnect = TRUE
  TellFromZero = TRUE
  RejectNegativeCL = TRUE
  AccountBeforeYield = TRUE
  ExhaustToTheEnd = TRUE
  Depth = 4
  MaxEvents = 1
  MaxEvLen = 0
  MaxData = 6
INVARIANT TypeOK
INVARIANT PrefixOfBody
INVARIANT SizedReadBounded
INVARIANT NeverAskBeyondCL
INVARIANT IndicatorsAgree
INVARIANT DisconnectEndsStream
INVARIANT ExhaustEndsStream
INVARIANT Emit
