INIT MCInit
NEXT XNext
CONSTANTS
  CharsetClass <- MCCharsetClass
  DelimWithCRLF = TRUE
  PartPool <- MCPartPool
  EnvPool <- MCEnvPool
  LimitsOf <- MCLimitsOf
  Sizes <- MCSizes
  RDelims <- MCRDelims
  MaxParts = 2
  MaxOps = 1
  MaxRetry = 1
  ContentSel = {1, 2, 3, 4, 5, 6, 7, 9, 10, 12}
  ProfileSel = {1, 3}
  UseJson = TRUE
  BoundarySel = {1, 2}
  PreSel = {1}
  EpiSel = {1}
  FinSel = {TRUE}
  LimModes = {"base"}
  EditPos <- NoPos
  EditKinds = {}
  EditVals = {}
  Depth = 0
INVARIANT ParseOfEncodeIsForm
INVARIANT QuotedRoundTrip
INVARIANT LimitsExactAtThreshold
INVARIANT ContentExact
INVARIANT SizeFailureSticks
INVARIANT CorruptionIsErrorOrWellDefined
PROPERTY MCBufferLimitExact
PROPERTY MCProgress
