INIT TInit
NEXT TNext
CONSTANTS
  Keys = {}
  HandlerIds = {}
  CTypes = {}
  Defaults = {}
  NoRaiseCalls = {}
  MaxObjs = 1000
  MaxUpdate = 0
  ClearOnSet = TRUE
  ClearOnDelete = TRUE
  BareKeyShortcut = FALSE
INVARIANT Sound
