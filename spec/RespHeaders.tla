--------------------------- MODULE RespHeaders ---------------------------
(* C15: response headers act as a case-insensitive map; cookies get separate lines.

   Design level (what is bound to the code): three stores merged at emission time
       hdr   plain headers, keyed by the name as the method normalised it
       raw   raw Set-Cookie values appended through append_header, in order
       jar   cookie name -> cookie (set_cookie / unset_cookie)
   Ghost level (what the property talks about):
       model    the case-insensitive map: case-folded name -> value
       nraw     number of raw cookies appended
       written  cookie name -> exactly what the last set_cookie/unset_cookie call asked for
   The invariants relate the two levels.  The design switches describe wrong designs
   (they are the mutants of DESIGN section 4) and must make an invariant fail:
       NoLower      methods that forget to normalise the name        (correct: {})
       AppendGuard  append_header special-cases Set-Cookie            (correct: TRUE)
       FreshCookie  set_cookie starts from an empty attribute set and unset_cookie clears Max-Age
                    (correct: TRUE; FALSE is what plainly re-using an http.cookies Morsel does)
       UseSecureDefault  secure=None takes the app option             (correct: TRUE)
       SnapshotDefault   the option is read once, when the response is created, instead of at the
                         set_cookie call                                 (correct: FALSE)
   sd is the value set_cookie uses for secure=None (design); opt is the option as the application last set it
   (ghost).  The application may change the option between any two response operations. *)
EXTENDS RespHeadersOps

CONSTANTS NoLower, AppendGuard, FreshCookie, UseSecureDefault, SnapshotDefault

VARIABLES hdr, raw, jar, sd, opt, model, nraw, written, last
stores == <<hdr, raw, jar>>
ghosts == <<model, nraw, written>>
vars   == <<hdr, raw, jar, sd, opt, model, nraw, written, last>>

Key(op, n) == IF op \in NoLower THEN n ELSE Lower(n)
SCKey      == [b |-> SCName, c |-> 0]
Last(op, sc, err, res) == [op |-> op, sc |-> sc, err |-> err, res |-> res, ck |-> "", sec |-> ""]
LastC(op, ck, sec)     == [op |-> op, sc |-> FALSE, err |-> FALSE, res |-> <<>>, ck |-> ck, sec |-> sec]

Init == /\ hdr = EmptyMap /\ raw = <<>> /\ jar = EmptyMap
        /\ sd \in BOOLEAN /\ opt = sd
        /\ model = EmptyMap /\ nraw = 0 /\ written = EmptyMap
        /\ last = Last("init", FALSE, FALSE, <<>>)

(* ---- plain-header calls ---- *)
GetHeader(n) ==
    LET k == Key("get", n) IN
    /\ last' = Last("get", IsSC(n), k = SCKey, IF k = SCKey THEN <<>> ELSE Look(hdr, k))
    /\ UNCHANGED <<hdr, raw, jar, sd, opt, model, nraw, written>>

SetHeader(n, v) ==
    LET k == Key("set", n) IN
    /\ hdr' = IF k = SCKey THEN hdr ELSE Put(hdr, k, v)
    /\ model' = IF IsSC(n) THEN model ELSE Put(model, n.b, v)
    /\ last' = Last("set", IsSC(n), k = SCKey, <<>>)
    /\ UNCHANGED <<raw, jar, sd, opt, nraw, written>>

DeleteHeader(n) ==
    LET k == Key("delete", n) IN
    /\ hdr' = IF k = SCKey THEN hdr ELSE Del(hdr, k)
    /\ model' = IF IsSC(n) THEN model ELSE Del(model, n.b)
    /\ last' = Last("delete", IsSC(n), k = SCKey, <<>>)
    /\ UNCHANGED <<raw, jar, sd, opt, nraw, written>>

AppendHeader(n, v) ==
    LET k == Key("append", n) IN
    /\ IF AppendGuard /\ k = SCKey
         THEN raw' = Append(raw, v) /\ hdr' = hdr
         ELSE hdr' = AppendVal(hdr, k, v) /\ raw' = raw
    /\ model' = IF IsSC(n) THEN model ELSE AppendVal(model, n.b, v)
    /\ nraw' = IF IsSC(n) THEN nraw + 1 ELSE nraw
    /\ last' = Last("append", IsSC(n), FALSE, <<>>)
    /\ UNCHANGED <<jar, sd, opt, written>>

(* bulk set: items is a sequence of [n, v]; either no item names Set-Cookie or all do (what a
   failed bulk call leaves behind is not stated by the property) *)
BulkOK(items) == (\A i \in 1..Len(items) : ~IsSC(items[i].n)) \/ (\A i \in 1..Len(items) : IsSC(items[i].n))
RECURSIVE BulkHdr(_, _)
BulkHdr(m, items) == IF items = <<>> THEN m
                     ELSE BulkHdr(Put(m, Key("bulk", Head(items).n), Head(items).v), Tail(items))
SetHeaders(items) ==
    LET bad == \E i \in 1..Len(items) : Key("bulk", items[i].n) = SCKey
        sc  == \E i \in 1..Len(items) : IsSC(items[i].n) IN
    /\ BulkOK(items)
    /\ hdr' = IF bad THEN hdr ELSE BulkHdr(hdr, items)
    /\ model' = IF sc THEN model ELSE PutAll(model, items)
    /\ last' = Last("set_headers", sc, bad, <<>>)
    /\ UNCHANGED <<raw, jar, sd, opt, nraw, written>>

(* ---- typed properties: the header name is fixed (and normalised) when the class is built ---- *)
TypedKey(p) == [b |-> TypedHeader[p], c |-> 0]
SetTyped(p, a) ==
    /\ hdr' = IF a.kind = "none" THEN Del(hdr, TypedKey(p)) ELSE Put(hdr, TypedKey(p), Fmt(p, a))
    /\ model' = IF a.kind = "none" THEN Del(model, TypedHeader[p]) ELSE Put(model, TypedHeader[p], Fmt(p, a))
    /\ last' = Last("typed", FALSE, FALSE, <<>>)
    /\ UNCHANGED <<raw, jar, sd, opt, nraw, written>>
GetTyped(p) ==
    /\ last' = Last("typed_get", FALSE, FALSE, Look(hdr, TypedKey(p)))
    /\ UNCHANGED <<hdr, raw, jar, sd, opt, model, nraw, written>>

AppendLink(text) ==
    /\ hdr' = AppendVal(hdr, [b |-> "link", c |-> 0], text)
    /\ model' = AppendVal(model, "link", text)
    /\ last' = Last("link", FALSE, FALSE, <<>>)
    /\ UNCHANGED <<raw, jar, sd, opt, nraw, written>>

(* ---- the application changes resp_options.secure_cookies_by_default ---- *)
SetSecureDefault(b) ==
    /\ opt' = b
    /\ sd' = IF SnapshotDefault THEN sd ELSE b
    /\ last' = Last("set_option", FALSE, FALSE, <<>>)
    /\ UNCHANGED <<hdr, raw, jar, model, nraw, written>>

(* ---- cookies ---- *)
SetCookie(k, a) ==
    LET new == CookieOf(a, IF UseSecureDefault THEN sd ELSE FALSE) IN
    /\ jar' = Put(jar, k, IF FreshCookie \/ k \notin DOMAIN jar THEN new ELSE MergeSet(jar[k], new))
    /\ written' = Put(written, k, CookieOf(a, opt))
    /\ last' = LastC("set_cookie", k, a.secure)
    /\ UNCHANGED <<hdr, raw, sd, opt, model, nraw>>
UnsetCookie(k, u) ==
    LET new == UnsetOf(u) IN
    /\ jar' = Put(jar, k, IF k \notin DOMAIN jar THEN new
                           ELSE IF FreshCookie THEN InheritUnset(jar[k], new) ELSE MergeUnset(jar[k], new))
    /\ written' = Put(written, k, new)
    /\ last' = LastC("unset_cookie", k, "")
    /\ UNCHANGED <<hdr, raw, sd, opt, model, nraw>>

(* ---- emission: what the server receives, as a function of the stores ---- *)
(* plain part: one <<name, value>> per stored key, the name as stored *)
PlainList == {<<k, hdr[k]>> : k \in DOMAIN hdr}
CookieLines == Len(raw) + Cardinality(DOMAIN jar)
EmitWsgi == last' = Last("emit_wsgi", FALSE, FALSE, <<>>) /\ UNCHANGED <<hdr, raw, jar, sd, opt, model, nraw, written>>
EmitAsgi == last' = Last("emit_asgi", FALSE, FALSE, <<>>) /\ UNCHANGED <<hdr, raw, jar, sd, opt, model, nraw, written>>

(* ---- properties ---- *)
(* reading back any header in any letter case returns what the case-insensitive map holds *)
ReadBackIsMap(names) == \A n \in names : ~IsSC(n) => Look(hdr, Key("get", n)) = Look(model, n.b)
(* Set-Cookie can be neither read, overwritten nor deleted through the plain-header calls *)
SetCookieGuarded == (last.sc /\ last.op \in {"get", "set", "delete", "set_headers"}) => last.err
SetCookieUntouched == [][(last'.sc /\ last'.op \in {"get", "set", "delete", "set_headers"}) => UNCHANGED stores]_vars
NoSetCookieInMap == \A k \in DOMAIN hdr : ~IsSC(k)
(* the list handed to the server has each plain header exactly once, with the map's value *)
EmitOncePerPlainHeader ==
    /\ \A b \in DOMAIN model : Cardinality({p \in PlainList : p[1].b = b}) = 1
    /\ \A p \in PlainList : p[1].b \in DOMAIN model /\ p[2] = model[p[1].b]
AsgiNamesLower == \A p \in PlainList : p[1].c = 0
(* one separate line per cookie and per appended raw cookie *)
OneLinePerCookieAndRawCookie == Len(raw) = nraw /\ DOMAIN jar = DOMAIN written /\ CookieLines = nraw + Cardinality(DOMAIN written)
(* every cookie written carries exactly the requested attributes *)
(* ... a cookie set carries exactly the requested attributes; an unset cookie carries what the call gave
   (what it did not give may be inherited from an earlier write to the same name, see RespHeadersOps) *)
CookieExactAttrs == \A k \in DOMAIN jar : /\ k \in DOMAIN written
                                          /\ IF written[k].unset THEN UnsetAsked(jar[k], written[k]) ELSE jar[k] = written[k]
(* Secure defaults from the app option, and only defaults: an explicit choice wins *)
SecureDefaultsFromOption ==
    last.op = "set_cookie" => jar[last.ck].secure = (IF last.sec = "none" THEN opt ELSE last.sec = "true")
UnsetExpires == \A k \in DOMAIN jar : UnsetIsExpired(jar[k])
===========================================================================
