-------------------------- MODULE ParamGettersOps --------------------------
(* C08, getters half: the protocol every typed getter of a request follows
   (get_param, get_param_as_int/float/bool/uuid/datetime/date/json/list) and has_param.

   A parameter is absent, or present with a non-empty sequence of values (in order of
   occurrence), or PRESENT WITH ZERO VALUES (`zero`: its comma-separated value had blank elements only
   and all were dropped, see QueryStringOps).  For the last status the scalar getters must follow the
   absent protocol (there is no value to convert); get_param_as_list may return the empty list or follow
   the absent protocol; has_param may say either.  The reference conversion of a value for a getter kind is an input of the
   model: conv = [ok |-> BOOLEAN, v |-> Int]; v is the converted number for the numeric kinds
   (floats in thousandths) and an opaque token identifying the converted object otherwise;
   for "bool" v is 0 (false), 1 (true) or 2 (blank: the value of blank_as_true applies).

   A call is [kind, required, hasdef, store, hasmin, min, hasmax, max, bat]; its outcome
     [res |-> "value" | "default" | "none" | "missing" | "invalid", why, v, vs, stored]
       value    the converted LAST occurrence (list kinds: all occurrences, vs), stored iff asked
       default  the caller's default (absent, not required)      none: no default given -> None
       missing  400-class error, parameter absent and required
       invalid  400-class error: conversion failed ("conv"), below min ("min"), above max ("max") *)
EXTENDS Integers, Sequences, FiniteSets, TLC
(* (functions only; ParamGetters.tla wraps them in the state machine carrying the laws) *)

ListKinds == {"list", "list_int"}
BoundedKinds == {"int", "float"}

Out(res, why, v, vs, stored) == [res |-> res, why |-> why, v |-> v, vs |-> vs, stored |-> stored]

AllOk(cs) == \A i \in 1..Len(cs) : cs[i].ok
Vals(cs)  == [i \in 1..Len(cs) |-> cs[i].v]

(* present: BOOLEAN; convs: the reference conversions of ALL occurrences, in order *)
Outcome(present, convs, c) ==
    IF c.kind = "has" THEN Out("value", "", IF present THEN 1 ELSE 0, <<>>, FALSE)     \* has_param: no protocol at all
    ELSE IF ~present THEN
        (IF c.required THEN Out("missing", "", 0, <<>>, FALSE)
         ELSE Out(IF c.hasdef THEN "default" ELSE "none", "", 0, <<>>, FALSE))
    ELSE IF c.kind \in ListKinds THEN
        (IF AllOk(convs) THEN Out("value", "", 0, Vals(convs), c.store) ELSE Out("invalid", "conv", 0, <<>>, FALSE))
    ELSE LET last == convs[Len(convs)]
             v == IF c.kind = "bool" /\ last.v = 2 THEN (IF c.bat THEN 1 ELSE 0) ELSE last.v
         IN  IF ~last.ok THEN Out("invalid", "conv", 0, <<>>, FALSE)
             ELSE IF c.kind \in BoundedKinds /\ c.hasmin /\ v < c.min THEN Out("invalid", "min", 0, <<>>, FALSE)
             ELSE IF c.kind \in BoundedKinds /\ c.hasmax /\ v > c.max THEN Out("invalid", "max", 0, <<>>, FALSE)
             ELSE Out("value", "", v, <<>>, c.store)

(* A conversion may carry two optional flags (spec/ScalarLex.tla classifies the spelling of a value):
     len   "lenient": the Python constructor the documentation defers to accepts the spelling and the unchanged
           code reports v, but the spelling is not a documented/canonical one: the 400-class error is acceptable too
     open  the decision is not modelled: the 400-class error or a value (whatever it is) *)
IsLenient(cv) == "len" \in DOMAIN cv /\ cv.len
IsOpen(cv)    == "open" \in DOMAIN cv /\ cv.open
Unpinned(present, convs, c) ==
    present /\ c.kind \notin ListKinds \cup {"has"} /\ Len(convs) > 0
    /\ (IsLenient(convs[Len(convs)]) \/ IsOpen(convs[Len(convs)]))

(* all acceptable outcomes; the first alternative of the zero-values case is Absent(c) *)
Absent(c) == Outcome(FALSE, <<>>, c)
Outcomes(present, zero, convs, c) ==
    IF ~zero THEN {Outcome(present, convs, c)}
                  \cup (IF Unpinned(present, convs, c) THEN {Out("invalid", "conv", 0, <<>>, FALSE)} ELSE {})
    ELSE IF c.kind = "has" THEN {Out("value", "", 0, <<>>, FALSE), Out("value", "", 1, <<>>, FALSE)}
    ELSE IF c.kind \in ListKinds THEN {Absent(c), Out("value", "", 0, <<>>, c.store)}
    ELSE {Absent(c)}
=============================================================================
