------------------------- MODULE ServerIfaceDelivery -------------------------
(* C06, response side: one streaming responder -- a body source of some kind holding data d that it delivers in
   blocks of its own choosing (ServerIface!DeliveryOK) -- mounted on both stacks.  Every consumer of the source
   (the framework's WSGI iterator, the server's wsgi.file_wrapper, the ASGI send loop) gets a source object of
   its own and pulls from it block by block:

     file-like:  read(BlockSize) -> next block; a block may be FULL (BlockSize bytes) or SHORT (fewer, non-empty)
                 although more data follows; b'' is the end
     iterable:   next() -> next chunk, possibly EMPTY; exhaustion is the end

   The design: a consumer goes on pulling until the source signals the end, and sends everything it got, in order.
   Hence the body is the whole source (BodyIsWholeSource) whatever the delivery pattern, and the response is the
   same on every stack (ResponseEqualAcrossStacks).

   Wrong-design switches (vacuity):
     ShortReadEndsBody   a read that returns fewer bytes than asked for is taken for the last one
     EmptyChunkEndsBody  an empty chunk is taken for the end of the iterable
     AsgiReadsOnce       the ASGI loop sends the result of ONE read (right for every file that fits a block) *)
EXTENDS ServerIface, Json

CONSTANTS Datas,          \* sequence of the data a source may hold (byte strings)
          BlockSize,      \* what a consumer asks a file-like for
          MaxChunks,      \* longest delivery pattern of an iterable
          Statuses, Announces,     \* responder: status, does it announce a Content-Length
          Interleave,     \* TRUE: the consumers run in any interleaving; FALSE: one after the other (they share nothing)
          ShortReadEndsBody, EmptyChunkEndsBody, AsgiReadsOnce

VARIABLES src,     \* the responder's source: [kind, data, sizes, status, announce]
          pos,     \* consumer -> index of the next block of ITS source object
          out,     \* consumer -> bytes sent so far
          done,    \* consumer -> has it finished the response
          phase    \* "choose" | "deliver" | "done"
vars == <<src, pos, out, done, phase>>

NoSrc == [kind |-> "file", data |-> <<>>, sizes |-> <<>>, status |-> 200, announce |-> FALSE]
Init == /\ src = NoSrc /\ phase = "choose"
        /\ pos = [c \in StackConsumers |-> 1] /\ out = [c \in StackConsumers |-> <<>>]
        /\ done = [c \in StackConsumers |-> FALSE]

Active == ConsumersOf(src.kind)
Patterns(kind, d) ==
    IF kind = "file" THEN {s \in SeqsUpTo(1..BlockSize, Len(d)) : DeliveryOK(kind, d, s, BlockSize)}
    ELSE {s \in SeqsUpTo(0..Len(d), MaxChunks) : DeliveryOK(kind, d, s, BlockSize)}

Choose(k, d, sz, st, an) ==
    /\ phase = "choose"
    /\ src' = [kind |-> k, data |-> d, sizes |-> sz, status |-> st, announce |-> an]
    /\ phase' = "deliver" /\ UNCHANGED <<pos, out, done>>

Block(c) == Blocks(src.data, src.sizes)[pos[c]]
Pull(c, endsHere) ==
    /\ out' = [out EXCEPT ![c] = @ \o Block(c)]
    /\ pos' = [pos EXCEPT ![c] = @ + 1]
    /\ done' = [done EXCEPT ![c] = endsHere]
    /\ UNCHANGED <<src, phase>>
Rank(c) == CASE c = "wsgi" -> 1 [] c = "wsgi-file-wrapper" -> 2 [] OTHER -> 3
MayMove(c) == phase = "deliver" /\ c \in Active /\ ~done[c]
              /\ (Interleave \/ \A c2 \in Active : Rank(c2) < Rank(c) => done[c2])
CanPull(c) == MayMove(c) /\ pos[c] <= Len(src.sizes)
Once(c) == AsgiReadsOnce /\ c = "asgi"
(* read(BlockSize) returned BlockSize bytes *)
PullFull(c)  == CanPull(c) /\ src.kind = "file" /\ Len(Block(c)) = BlockSize /\ Pull(c, Once(c))
(* read(BlockSize) returned fewer bytes, not none: more may follow *)
PullShort(c) == CanPull(c) /\ src.kind = "file" /\ Len(Block(c)) < BlockSize /\ Pull(c, ShortReadEndsBody \/ Once(c))
(* the iterable yielded a non-empty / an empty chunk *)
PullChunk(c) == CanPull(c) /\ src.kind = "iter" /\ Block(c) # <<>> /\ Pull(c, FALSE)
PullEmpty(c) == CanPull(c) /\ src.kind = "iter" /\ Block(c) = <<>> /\ Pull(c, EmptyChunkEndsBody)
(* b'' / exhaustion: the source signals the end, the consumer finishes the response *)
EndOfSource(c) ==
    /\ MayMove(c) /\ pos[c] > Len(src.sizes)
    /\ done' = [done EXCEPT ![c] = TRUE] /\ UNCHANGED <<src, pos, out, phase>>
Finish == phase = "deliver" /\ (\A c \in Active : done[c]) /\ phase' = "done" /\ UNCHANGED <<src, pos, out, done>>

XChoose == \E k \in SourceKinds, i \in 1..Len(Datas) : \E sz \in Patterns(k, Datas[i]) :
              \E st \in Statuses, an \in Announces : Choose(k, Datas[i], sz, st, an)
XPullFull  == \E c \in StackConsumers : PullFull(c)
XPullShort == \E c \in StackConsumers : PullShort(c)
XPullChunk == \E c \in StackConsumers : PullChunk(c)
XPullEmpty == \E c \in StackConsumers : PullEmpty(c)
XEndOfSource == \E c \in StackConsumers : EndOfSource(c)
XFinish == Finish
Next == XChoose \/ XPullFull \/ XPullShort \/ XPullChunk \/ XPullEmpty \/ XEndOfSource \/ XFinish
Spec == Init /\ [][Next]_vars

Response(c) == StreamedResponse(src, src.data, out[c])

(* ---- invariants ---- *)
TypeOK == phase \in {"choose", "deliver", "done"} /\ (phase # "choose" => DeliveryOK(src.kind, src.data, src.sizes, BlockSize))
(* nothing is sent twice, out of order or invented *)
DeliveredIsPrefix == \A c \in Active : IsPrefix(out[c], src.data)
(* the body of a finished response is the concatenation of everything the source delivers *)
BodyIsWholeSource == \A c \in Active : done[c] => out[c] = WholeSource(src.data, src.sizes) /\ out[c] = src.data
(* same status, same header facts, same body bytes on every stack *)
ResponseEqualAcrossStacks == \A c1, c2 \in Active : done[c1] /\ done[c2] => Response(c1) = Response(c2)

(* ---- export (leg A): one case per finished delivery ---- *)
Emit == phase = "done" =>
    PrintT(ToJson([kind |-> src.kind, data |-> src.data, sizes |-> src.sizes, blocks |-> Blocks(src.data, src.sizes),
                   status |-> src.status, announce |-> src.announce, block_size |-> BlockSize,
                   drivers |-> [d \in DeliveryDrivers |-> ConsumerOf(d, src.kind)],
                   response |-> Response("asgi")]))
=============================================================================
