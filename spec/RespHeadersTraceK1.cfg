INIT Init
NEXT Next
CONSTANT KnownSets <- OneDeviation
INVARIANT Sound
