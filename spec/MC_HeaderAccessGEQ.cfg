INIT GInit
NEXT GNext
CONSTANTS
  Bounds <- BoundsEQ
  ReqSet <- ReqsSmall
  ReadAttrs <- UrlAttrs
  Depth = 0
  SharedUriSlot = FALSE
INVARIANT EmitG
