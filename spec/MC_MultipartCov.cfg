INIT MCInit
NEXT XNext
CONSTANTS
  CharsetClass <- MCCharsetClass
  DelimWithCRLF = TRUE
  PartPool <- MCPartPool
  EnvPool <- MCEnvPool
  LimitsOf <- MCLimitsOf
  Sizes <- ExpSizes
  RDelims <- ExpRDelims
  MaxParts = 1
  MaxOps = 1
  MaxRetry = 1
  ContentSel = {6}
  ProfileSel = {1}
  UseJson = TRUE
  BoundarySel = {1}
  PreSel = {1}
  EpiSel = {1}
  FinSel = {TRUE}
  LimModes = {"base", "buf"}
  EditPos <- FewPos
  EditKinds = {"del", "sub"}
  EditVals = {88}
  Depth = 0
INVARIANT ParseOfEncodeIsForm
INVARIANT QuotedRoundTrip
INVARIANT LimitsExactAtThreshold
INVARIANT ContentExact
INVARIANT SizeFailureSticks
INVARIANT CorruptionIsErrorOrWellDefined
PROPERTY MCBufferLimitExact
PROPERTY MCProgress
