INIT Init
NEXT Next
CONSTANTS
  Bases <- BasesT
  MaxMut = 2
INVARIANT BasesValid
INVARIANT ValidIsClean
INVARIANT DayExists
INVARIANT ObsConsistent
INVARIANT IsoShape
INVARIANT EmitD
