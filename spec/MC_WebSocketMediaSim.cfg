INIT MCInit
NEXT ANext
CONSTANTS
  Conns = {1, 2}
  Bases = {1, 2, 3, 4, 5, 6}
  Kinds = {"text", "bin"}
  Marks = {7, 8}
  ShareDecoded = FALSE
  MemoEncoded = FALSE
  MaxFrames = 6
  MaxHeap = 7
  MaxMut = 3
  MaxDistinct = 2
  MaxSends = 4
  Depth = 16
INVARIANT DeliveredEqualsSent
INVARIANT NoSharedResults
INVARIANT SentIsEncodingAtCall
INVARIANT Emit
