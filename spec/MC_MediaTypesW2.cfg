INIT Init
NEXT XNext
CONSTANTS
  Ranges <- RangesQ
  MTypes <- MTypesQ
  AllM <- AllMQ
  MaxRanges = 2
  MaxCands = 1
  SubBeforeExact = TRUE
  Positive = FALSE
  QSplits = FALSE
INVARIANT SpecificityOrder
INVARIANT BestIsFirstMax
INVARIANT QZeroNeverChosen
INVARIANT MalformedOnlyValueError
INVARIANT AcceptsIffPositive
INVARIANT QPositionIrrelevant
