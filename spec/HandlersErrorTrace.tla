-------------------------- MODULE HandlersErrorTrace --------------------------
(* Trace judge for error rendering after in-place edits of resp_options.media_handlers.
   A trace is [init: the mapping the app was configured with, ev: events]; an event is either a
   mutation of the mapping (as in HandlersTrace: op, o, k, h, pairs, r, map) or
     [op: "error", o, hdr, xml, ct, enc, status, map]
   one request answered with a rendered HTTPError: hdr = the abstract Accept header, xml = the
   xml_error_serialization flag, ct = the Content-Type that reached the client (NOKEY: none or
   irrelevant), enc = who encoded the body (handler id > 0, 0 no body, -1 built-in XML, -2 the
   framework's JSON encoder, -9 something else), map = the mapping the object reports then.
     P:status    the error did not reach the client with its own status
     P:offered   the representation chosen is not the one the mapping AT THAT TIME offers for the
                 Accept header (a new type not offered, a removed type still chosen)
     P:encoder   the body was not encoded by what the chosen type designates at that time BY THE MATCHING RULE
                 (Content-Type and body disagree, stale handler, body missing, built-in serialization although a
                 key of the mapping matches the type without being literally equal to it)                    *)
EXTENDS HandlersError, Json, IOUtils

Traces == JsonDeserialize(IOEnv.TRACE_FILE)
TJson == MT("a", "x", <<>>)
TAXml == MT("a", "m", <<>>)
TTXml == MT("b", "m", <<>>)
TSufJson == {"w"}
TSufXml  == {"v"}
VARIABLES tid, l, verdict
tvars == <<tid, l, verdict, objs, last, elast, offmemo>>
T == Traces[tid]

TInit == /\ tid \in 1..Len(Traces) /\ l = 1 /\ verdict = "ok"
         /\ objs = <<[map |-> Traces[tid].init, memo |-> {}]>>
         /\ last = Rec("init", 0, NOKEY, 0, NOCT, NOKEY, FALSE, 0, FALSE)
         /\ elast = [o |-> 0, hdr |-> <<>>, xml |-> FALSE, ct |-> NOKEY, enc |-> NOBODY]
         /\ offmemo = <<[offered |-> <<>>, xml |-> FALSE]>>

Valid(e) == e.o = 1 /\ e.op \in {"set", "del", "pop", "update", "updatefail", "clear", "setdefault", "error"}
Act(e) == CASE e.op = "set"        -> Set(e.o, e.k, e.h) /\ UNCHANGED <<elast, offmemo>>
            [] e.op = "del"        -> Del(e.o, e.k) /\ UNCHANGED <<elast, offmemo>>
            [] e.op = "pop"        -> Pop(e.o, e.k, e.r) /\ UNCHANGED <<elast, offmemo>>
            [] e.op = "update"     -> Update(e.o, e.pairs) /\ UNCHANGED <<elast, offmemo>>
            [] e.op = "updatefail" -> UpdateFail(e.o, e.pairs) /\ UNCHANGED <<elast, offmemo>>
            [] e.op = "clear"      -> Clear(e.o) /\ UNCHANGED <<elast, offmemo>>
            [] e.op = "setdefault" -> SetDefault(e.o, e.k, e.h) /\ UNCHANGED <<elast, offmemo>>
            [] e.op = "error"      -> RenderError(e.o, e.hdr, e.xml)

(* judged against the mapping the object itself reports when the error is rendered *)
Judge(e) ==
    IF e.op # "error" THEN (IF e.map # objs'[1].map THEN "H:map" ELSE "ok")
    ELSE LET w == ErrorOutcome(e.map, e.hdr, e.xml) IN
         IF e.status # 400 THEN "P:status"
         ELSE IF w.ct # NOKEY /\ e.ct # w.ct THEN "P:offered"
         ELSE IF e.enc \notin AdmittedEnc(e.map, w.ct, e.xml) THEN (IF w.ct = NOKEY THEN "P:offered" ELSE "P:encoder")
         ELSE "ok"

Step ==
    /\ l >= 1 /\ l <= Len(T.ev) /\ verdict = "ok"
    /\ LET e == T.ev[l] IN
         IF Valid(e) THEN Act(e) /\ verdict' = Judge(e)
         ELSE verdict' = "H:invalid" /\ UNCHANGED evars
    /\ l' = l + 1 /\ UNCHANGED tid
Done ==
    /\ l >= 1 /\ (l > Len(T.ev) \/ verdict # "ok")
    /\ PrintT(<<"VERDICT", tid, verdict, l - 1>>)
    /\ l' = -1 /\ UNCHANGED <<tid, verdict, objs, last, elast, offmemo>>
TNext == Step \/ Done
Sound == OfferedFollowsMapping /\ TypeAndBodyAgree
================================================================================
