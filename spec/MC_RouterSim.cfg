INIT XInit
NEXT ANext
CONSTANTS
  TS <- MCTS
  CT <- MCCT
  BadNames <- MCBad
  Templates <- MCTemplates
  Paths <- MCPaths
  MaxAdds = 7
  MaxDepth = 3
  MaxPathLen = 3
  Depth = 12
  Rollback = TRUE
  ResetOnAdd = TRUE
INVARIANT Emit
