INIT XInit
NEXT ANext
CONSTANTS
  TS <- MCTS
  CT <- MCCT
  BadNames <- MCBad
  Templates <- MCTemplates
  Paths <- MCPaths
  MaxAdds = 6
  MaxDepth = 3
  MaxPathLen = 4
  Depth = 10
  Rollback = TRUE
  ResetOnAdd = TRUE
INVARIANT FindIsIdealDFS
INVARIANT Emit
