INIT Init
NEXT Next
CONSTANTS
  Methods = {"POST"}
  MaxHeaders = 2
  NTargets = 3
  NQueries = 1
  NPool = 16
  NBodies = 4
  NEndpoints = 8
  Kinds = {"echo"}
  NOptions = 1
  Statuses = {204}
  PlainShare = 0
  NForwarding = 2
  UnderscoreNames = FALSE
INVARIANT GeneratedAreWellFormed
INVARIANT EncodingsAgree
INVARIANT ClientSaysTheSame
INVARIANT RawMaterialKept
