INIT Init
NEXT Next
CONSTANT KnownSets <- AllDeviations
INVARIANT Sound
