INIT TInit
NEXT TNext
CONSTANTS
  Templates = {}
  ResKinds = {}
  SinkPats = {}
  StaticPrefixes = {}
  MaxCalls = 100000
  NewestFirst = TRUE
  RoutesFirst = TRUE
INVARIANT Sound
