-------------------------- MODULE DispatchTrace --------------------------
(* Trace judge for C02.  Reads a JSON list of traces recorded from real apps:
     [sbs, ev: [op, ok, id, tmpl, sfx, plain, sfxm, pat, prefix, fb, m, p, obs]]
   op = "route" | "sink" | "static" (assembly calls, in the order they were made on the app) or
   "req" (one request with what was observed: obs = [bad, status, who, id, meth, sfx, kw, hasAllow, allow]).
   Every trace is an initial state; assembly events drive Dispatch's tables, request events are
   compared with Dispatch!Visible.  Total: the first failing clause is recorded in `verdict`.
     P:exception  something escaped the app / more than one responder ran
     P:who        a different responder / sink / static route (or none) ran than the decision says
     P:status     status differs (404 / 405 / 400 / 200)
     P:kwargs     keyword arguments differ from the template fields / named groups (key set, values of groups that matched)
     D:kwargs-none  a named group that did not take part arrived, but not as None
     P:allow      Allow header of a 405 / automatic OPTIONS differs from the implemented set
     D:badmethod  unknown method on a routed path did not answer 400 (documented detail)
     D:allow      an Allow header where the decision has none (or vice versa) outside 405 / OPTIONS
     D:addroute   add_route refused a call the suffix rule accepts
     H:conflict   the harness generated two different fields / two multi-field segments of one shape at one template position
     H:template   the harness generated a template outside the vocabulary (WellFormedTmpl)
     H:sink       the harness generated a sink prefix outside the pattern language (WellFormedSink) *)
EXTENDS Dispatch, Json, IOUtils

Traces == JsonDeserialize(IOEnv.TRACE_FILE)

VARIABLES tid, l, verdict
tvars == <<vars, tid, l, verdict>>

T  == Traces[tid]
Ev == T.ev[l]
Range(s) == {s[i] : i \in 1..Len(s)}
Kind == [plain |-> Range(Ev.plain), sfx |-> Range(Ev.sfxm)]

TInit == /\ tid \in 1..Len(Traces) /\ l = 1 /\ verdict = "ok"
         /\ routes = {} /\ sinks = <<>> /\ statics = <<>> /\ sbs = Traces[tid].sbs /\ n = 0
         /\ last = Call("init", TRUE, 0, <<>>, "", {}, {}, <<>>, <<>>, FALSE)

JudgeReq ==
    LET o   == Outcome(Ev.m, Ev.p)
        v   == VisibleOf(Ev.m, Ev.p, o)
        obs == Ev.obs
        okw == {[n |-> x.n, v |-> x.v] : x \in Range(obs.kw)}
    IN  IF obs.bad THEN "P:exception"
        ELSE IF obs.who # v.who \/ obs.id # v.id \/ (v.who = "res" /\ (obs.meth # Ev.m \/ obs.sfx # v.sfx)) THEN "P:who"
        ELSE IF obs.status # v.status THEN (IF o.kind = "BadMethod" THEN "D:badmethod" ELSE "P:status")
        ELSE IF {x.n : x \in okw} # {x.n : x \in v.kw} THEN "P:kwargs"         \* the key set: every named group of the prefix
        ELSE IF okw # v.kw THEN (IF \A x \in v.kw \ okw : x.v = NONE THEN "D:kwargs-none" ELSE "P:kwargs")
        ELSE IF obs.hasAllow # v.hasAllow \/ Range(obs.allow) # v.allow
             THEN (IF o.kind \in {"NotAllowed", "AutoOptions"} THEN "P:allow" ELSE "D:allow")
        ELSE "ok"

(* accepted although the suffix selects no responder: no verdict here - the tables follow the specification (no such
   route), so whatever the wrongly accepted route answers later is judged as P:status / P:who / P:allow *)
JudgeRoute ==
    IF ~Ev.ok /\ ~SuffixSelectsNothing(Kind, Ev.sfx) THEN "D:addroute"
    ELSE IF ~WellFormedTmpl(Ev.tmpl) THEN "H:template"
    ELSE IF Ev.ok /\ ~ConflictFree(RoutesWith(Ev.tmpl, Ev.id, Kind, Ev.sfx)) THEN "H:conflict"
    ELSE "ok"

JudgeSink == IF WellFormedSink(Ev.pat) THEN "ok" ELSE "H:sink"

(* what an event does to the dispatch tables (assembly events as logged; requests change nothing) *)
Apply ==
    /\ routes'  = (IF Ev.op = "route" /\ Ev.ok /\ ~SuffixSelectsNothing(Kind, Ev.sfx)
                   THEN RoutesWith(Ev.tmpl, Ev.id, Kind, Ev.sfx) ELSE routes)
    /\ sinks'   = (IF Ev.op = "sink" THEN Put(sinks, [id |-> Ev.id, pat |-> Ev.pat]) ELSE sinks)
    /\ statics' = (IF Ev.op = "static" THEN Put(statics, [id |-> Ev.id, prefix |-> Ev.prefix, fb |-> Ev.fb]) ELSE statics)
    /\ n' = (IF Ev.op \in {"route", "sink", "static"} THEN Ev.id ELSE n)
    /\ l' = l + 1 /\ UNCHANGED <<tid, sbs, last>>

Step ==
    /\ l >= 1 /\ l <= Len(T.ev) /\ verdict = "ok"
    /\ verdict' = (CASE Ev.op = "req" -> JudgeReq [] Ev.op = "route" -> JudgeRoute [] Ev.op = "sink" -> JudgeSink [] OTHER -> "ok")
    /\ Apply

Done ==
    /\ l >= 1 /\ (l > Len(T.ev) \/ verdict # "ok")
    /\ PrintT(<<"VERDICT", tid, verdict, l - 1>>)
    /\ l' = -1 /\ UNCHANGED <<vars, tid, verdict>>

TNext == Step \/ Done
TSpec == TInit /\ [][TNext]_tvars
Sound == Len(sinks) + Len(statics) + Cardinality(routes) <= n
=========================================================================
