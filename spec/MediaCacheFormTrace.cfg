INIT TInit
NEXT TNext
CONSTANTS
  Medias = {}
INVARIANT Sound
