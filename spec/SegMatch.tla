---------------------------- MODULE SegMatch ----------------------------
(* C01: one URI-template segment against one path segment.

   A path segment is a sequence of one-character strings.  A template segment is a record
   [items |-> <<item, ...>>]; an item is a literal chunk or a field expression, as one
   uniform record
        [t |-> "lit", v |-> <<chars>>, f |-> "",   c |-> NoConv]
        [t |-> "fld", v |-> <<>>,      f |-> name, c |-> converter]
   (adjacent literal chunks are merged and empty ones dropped, so equal records <=> equal
   template text).  A converter is [k, nd, hasLo, lo, hasHi, hi, fin]: k is the converter
   identifier ("" = none, "int", "float", "uuid", "dt", "path", or a user-defined one, see CT.multi), nd = required number of
   digits (-1 = any), lo/hi = inclusive bounds (whole numbers, also for float), fin = finite floats only.

   What a converter's *parser* accepts (CPython int(), float(), uuid.UUID(), strptime()) is not
   re-specified here: CT is the trusted table, computed by the harness with CPython itself
   over every substring of the instance's path segments:
        CT.int[s]   = [n |-> int(s), n2 |-> int(s), nan |-> FALSE, fin |-> TRUE, v |-> chars of str(int(s))]
                      where int(s) succeeds
        CT.float[s] = [n |-> floor(x), n2 |-> ceil(x), nan |-> isnan(x), fin |-> isfinite(x), v |-> chars of str(x)]
                      where x = float(s) succeeds (infinities: n = n2 = the largest / smallest integer)
        CT.uuid[s], CT.dt[s] likewise (v = str() of the value)
        CT.multi[k][ListKey(l)] = [ok, ty, v]   for every USER-DEFINED converter k that consumes multiple segments
                      (class attribute CONSUME_MULTIPLE_SEGMENTS; registered through router_options.converters):
                      what the converter's own convert() answers when it is handed the LIST l of the remaining
                      path segments -- ok = FALSE is a veto (None), else ty/v = type and str() of the value.
                      DOMAIN CT.multi is the set of these converters: being one is what matters to add_route.
   The converter *rules* on top of the parser (surrounding blanks, digit count, bounds,
   finiteness) are specified below.

   Line feed.  A multi-field segment is matched the way the router's regular expression for it
   matches ("^" chunk/field ... "$", a field = ".+", neither DOTALL nor MULTILINE): a field never
   takes a line feed, and the end of the pattern is reached at the end of the segment OR just before
   a line feed that is its last character (which then belongs to no field).  Carriage return is an
   ordinary character.  Literal and single-field segments compare/capture the whole segment. *)
EXTENDS Bytes

CONSTANT CT

LF    == IF "lf" \in DOMAIN CT THEN CT.lf ELSE "\n"     \* CT.lf: the line feed of an instance whose characters are not strings (Dispatch: code points)
Blank == {" ", "\t", "\n", "\r", "\f"}          \* what str.strip() removes / what a template may not contain (among the characters in use)

NoConv == [k |-> "", nd |-> -1, hasLo |-> FALSE, lo |-> 0, hasHi |-> FALSE, hi |-> 0, fin |-> TRUE]
MultiSeg == {"path"} \cup DOMAIN CT.multi          \* converters that consume the rest of the path
KnownConverters == {"int", "float", "uuid", "dt"} \cup MultiSeg

(* ---- abstract field values: the type of the Python object and the characters of its str() ---- *)
Val(ty, v) == [ty |-> ty, v |-> v]
None       == Val("none", <<>>)

Trimmed(s) == s = <<>> \/ (s[1] \notin Blank /\ s[Len(s)] \notin Blank)

(* the value converter c produces for the text s, or None = "the converter vetoes the match" *)
Convert(c, s) ==
    CASE c.k = "" -> Val("str", s)
      [] c.k = "int" ->
            IF /\ s \in DOMAIN CT.int
               /\ Trimmed(s)
               /\ (c.nd = -1 \/ Len(s) = c.nd)
               /\ (c.hasLo => CT.int[s].n >= c.lo)
               /\ (c.hasHi => CT.int[s].n <= c.hi)
            THEN Val("int", CT.int[s].v) ELSE None
      [] c.k = "float" ->                   \* bounds are whole numbers here; NaN compares false with every bound
            IF /\ s \in DOMAIN CT.float
               /\ Trimmed(s)
               /\ (c.fin => CT.float[s].fin)
               /\ (c.hasLo => (CT.float[s].nan \/ CT.float[s].n  >= c.lo))      \* x >= lo  <=>  floor(x) >= lo
               /\ (c.hasHi => (CT.float[s].nan \/ CT.float[s].n2 <= c.hi))      \* x <= hi  <=>  ceil(x)  <= hi
            THEN Val("float", CT.float[s].v) ELSE None
      [] c.k = "uuid" -> IF s \in DOMAIN CT.uuid THEN Val("uuid", CT.uuid[s].v) ELSE None
      [] c.k = "dt"   -> IF s \in DOMAIN CT.dt THEN Val("dt", CT.dt[s].v) ELSE None
      [] OTHER -> None

(* the value of a trailing multi-segment field for the remaining segments `rest` (a non-empty list), or None:
   the built-in path converter joins them with "/" and never vetoes; a user-defined one is asked (CT.multi),
   with the list itself *)
RECURSIVE JoinSlash(_)
JoinSlash(segs) == IF segs = <<>> THEN <<>>
                   ELSE IF Len(segs) = 1 THEN segs[1]
                   ELSE segs[1] \o <<"/">> \o JoinSlash(Tail(segs))
RECURSIVE Str(_)
Str(cs) == IF cs = <<>> THEN "" ELSE cs[1] \o Str(Tail(cs))        \* the characters as one string (TLC: \o on strings)
ListKey(rest) == Str(JoinSlash(rest))                              \* names the LIST rest in CT.multi (see RouterUniverse)
ConvertRest(c, rest) ==
    IF c.k = "path" THEN Val("str", JoinSlash(rest))
    ELSE IF c.k \in DOMAIN CT.multi
         THEN LET r == CT.multi[c.k][ListKey(rest)] IN IF r.ok THEN Val(r.ty, r.v) ELSE None
    ELSE None

(* ---- shape of a template segment ---- *)
IsFld(it)   == it.t = "fld"
FieldsOf(ts) == SelectSeq(ts.items, IsFld)                       \* field items, left to right
FieldNames(ts) == {ts.items[i].f : i \in {j \in DOMAIN ts.items : IsFld(ts.items[j])}}
Kind(ts) == IF FieldsOf(ts) = <<>> THEN "lit"                    \* literal text only (possibly empty)
            ELSE IF Len(ts.items) = 1 THEN "var"                 \* one field spanning the whole segment
            ELSE "cx"                                            \* multi-field / field with literal text
Rank(ts) == CASE Kind(ts) = "lit" -> 0 [] Kind(ts) = "cx" -> 1 [] OTHER -> 2
LitText(ts) == Concat([i \in DOMAIN ts.items |-> ts.items[i].v])
HasPathField(ts) == \E i \in DOMAIN ts.items : IsFld(ts.items[i]) /\ ts.items[i].c.k \in MultiSeg
IsPathSeg(ts) == Kind(ts) = "var" /\ ts.items[1].c.k \in MultiSeg    \* swallows the rest of the path
(* what is left of a multi-field segment when every field expression is replaced by "v" *)
Shape(ts) == Concat([i \in DOMAIN ts.items |-> IF IsFld(ts.items[i]) THEN <<"v">> ELSE ts.items[i].v])

(* ---- matching ---- *)
No        == [ok |-> FALSE, caps |-> <<>>]
Yes(caps) == [ok |-> TRUE, caps |-> caps]
Cap(f, val) == [f |-> f, ty |-> val.ty, v |-> val.v]

(* Raw split of s over the items i.. from position pos (0-based): a literal chunk must be next;
   a field takes the LONGEST non-empty text WITHOUT A LINE FEED such that the rest still matches
   (leftmost field first) -- a greedy ".+" with backtracking; the end ("$") is the end of s or the
   position of a final line feed.  Captures are [f, c, s] with the raw text.
   LFBlind = TRUE is the wrong design "a field takes anything, the end is the end" (vacuity switch). *)
LFBlind == FALSE
NoLF(x) == LFBlind \/ \A j \in DOMAIN x : x[j] # LF
AtEnd(s, pos) == pos = Len(s) \/ (~LFBlind /\ pos = Len(s) - 1 /\ s[Len(s)] = LF)
RECURSIVE Split(_, _, _, _)
Split(its, i, s, pos) ==
    IF i > Len(its) THEN (IF AtEnd(s, pos) THEN Yes(<<>>) ELSE No)
    ELSE IF ~IsFld(its[i])
         THEN (IF IsAt(s, its[i].v, pos) THEN Split(its, i + 1, s, pos + Len(its[i].v)) ELSE No)
         ELSE LET RECURSIVE TryEnd(_)
                  TryEnd(e) == IF e <= pos THEN No
                               ELSE LET r == Split(its, i + 1, s, e)
                                    IN  IF NoLF(Slice(s, pos, e)) /\ r.ok THEN Yes(<<[f |-> its[i].f, c |-> its[i].c, s |-> Slice(s, pos, e)]>> \o r.caps)
                                        ELSE TryEnd(e - 1)
              IN  TryEnd(Len(s))

(* Match(ts, s): No, or Yes(<<[f, ty, v], ...>>).  For a multi-field segment the split is chosen
   first, the converters then accept or veto THAT split (no further backtracking).
   MatchK takes the kind of ts as an argument so that callers which tabulate Kind need not recompute it. *)
MatchK(k, ts, s) ==
    CASE k = "lit" -> IF s = LitText(ts) THEN Yes(<<>>) ELSE No
      [] k = "var" ->
            LET it == ts.items[1]  val == Convert(it.c, s)
            IN  IF val = None THEN No ELSE Yes(<<Cap(it.f, val)>>)
      [] OTHER ->
            LET r == Split(ts.items, 1, s, 0) IN
            IF ~r.ok THEN No
            ELSE LET vals == [j \in DOMAIN r.caps |-> Convert(r.caps[j].c, r.caps[j].s)]
                 IN  IF \E j \in DOMAIN vals : vals[j] = None THEN No
                     ELSE Yes([j \in DOMAIN vals |-> Cap(r.caps[j].f, vals[j])])
Match(ts, s) == MatchK(Kind(ts), ts, s)

(* What a split is, said without the search: the captured texts are non-empty and free of line feeds, and
   put back between the literal chunks they give the segment, or the segment without its final line feed. *)
RECURSIVE Rebuild(_, _, _, _)
Rebuild(its, i, caps, j) ==
    IF i > Len(its) THEN <<>>
    ELSE IF IsFld(its[i]) THEN caps[j].s \o Rebuild(its, i + 1, caps, j + 1)
    ELSE its[i].v \o Rebuild(its, i + 1, caps, j)
SplitSound(ts, s) ==
    LET r == Split(ts.items, 1, s, 0) IN
    r.ok => /\ Len(r.caps) = Len(FieldsOf(ts))
            /\ \A j \in DOMAIN r.caps : r.caps[j].s # <<>> /\ \A k \in DOMAIN r.caps[j].s : r.caps[j].s[k] # LF
            /\ LET whole == Rebuild(ts.items, 1, r.caps, 1) IN whole = s \/ whole \o <<LF>> = s
=========================================================================
