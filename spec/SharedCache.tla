---------------------------- MODULE SharedCache ----------------------------
(* C19 (threads, outside the router): requests handled by threads of one WSGI app share
   process-wide memo caches with a size bound (functools.lru_cache(maxsize=64) around the
   media-handler resolver, the media-type parsers, the header-name cache ...) and nothing else.
   A thread may be preempted between any two source lines.  Each response must equal the
   response of the same request processed alone, and no request may fail.

   The design that holds (what falcon does): lookup-or-compute-and-store is ONE step (the
   lru_cache wrapper runs under its own lock, in C), eviction drops the least recently used
   entry, and everything computed for a request lives in that request's own objects.

   Wrong-design switches (each is a way a maintainer could "simplify" the code; each must
   violate an invariant, and does so with a single preemption - see MC_SharedCache*.cfg):
     AtomicLookup = FALSE  membership test and read are two steps, a full cache is cleared
     TornStore    = TRUE   a one-entry "last key / last value" memo written in two steps
     SharedResult = TRUE   the computed result object is kept in an app-level slot and
                           filled in / read by whoever runs (e.g. one preallocated error) *)
EXTENDS Integers, Sequences, FiniteSets, TLC

CONSTANTS Threads, Keys,
          Cap,                       \* cache capacity
          WarmSet,                   \* possible cache contents before the threads start (sequences, LRU first)
          AtomicLookup, TornStore, SharedResult,
          MaxPre                     \* preemption bound (-1: unbounded)

VARIABLES keyOf,                     \* [Threads -> Keys], chosen initially: the requests
          pc, cache, order, lastKey, lastVal, slot, priv, resp, failed, cur, pre
vars == <<keyOf, pc, cache, order, lastKey, lastVal, slot, priv, resp, failed, cur, pre>>

None == -1
F(k) == k * 10 + 7
Range(s) == {s[i] : i \in 1..Len(s)}
Without(s, k) == SelectSeq(s, LAMBDA x : x # k)

Init == /\ keyOf \in [Threads -> Keys]
        /\ pc = [t \in Threads |-> "check"]
        /\ order \in WarmSet
        /\ cache = [k \in Range(order) |-> F(k)]
        /\ lastKey = None /\ lastVal = None /\ slot = None
        /\ priv = [t \in Threads |-> None] /\ resp = [t \in Threads |-> None]
        /\ failed = [t \in Threads |-> FALSE]
        /\ cur = None /\ pre = 0

(* bookkeeping: a step of t while another thread is in the middle of its request is a preemption *)
Sched(t) == /\ cur' = t /\ UNCHANGED keyOf
            /\ pre' = IF cur # None /\ cur # t /\ pc[cur] # "done" THEN pre + 1 ELSE pre
            /\ (MaxPre >= 0 /\ cur # None /\ cur # t /\ pc[cur] # "done") => pre < MaxPre

Insert(k) ==
    IF k \in DOMAIN cache
    THEN /\ order' = Append(Without(order, k), k) /\ UNCHANGED cache
    ELSE IF Len(order) < Cap
         THEN /\ order' = Append(order, k)
              /\ cache' = [x \in DOMAIN cache \cup {k} |-> IF x = k THEN F(k) ELSE cache[x]]
         ELSE IF AtomicLookup
              THEN LET victim == Head(order) IN        \* least recently used entry goes
                   /\ order' = Append(Tail(order), k)
                   /\ cache' = [x \in (DOMAIN cache \ {victim}) \cup {k} |-> IF x = k THEN F(k) ELSE cache[x]]
              ELSE /\ order' = <<k>>                     \* "cheaper": clear when full
                   /\ cache' = [x \in {k} |-> F(k)]

(* ---- the memo lookup --------------------------------------------------------------- *)
Check(t) ==
    /\ pc[t] = "check" /\ Sched(t)
    /\ LET k == keyOf[t] IN
       IF TornStore
       THEN /\ pc' = [pc EXCEPT ![t] = IF lastKey = k THEN "get" ELSE "compute"]
            /\ UNCHANGED <<cache, order, priv, slot>>
       ELSE IF AtomicLookup
            THEN /\ Insert(k)                            \* hit or miss+store: one step
                 /\ priv' = [priv EXCEPT ![t] = F(k)]
                 /\ slot' = IF SharedResult THEN F(k) ELSE slot
                 /\ pc' = [pc EXCEPT ![t] = "use"]
            ELSE /\ pc' = [pc EXCEPT ![t] = IF k \in DOMAIN cache THEN "get" ELSE "compute"]
                 /\ UNCHANGED <<cache, order, priv, slot>>
    /\ UNCHANGED <<lastKey, lastVal, resp, failed>>

Get(t) ==
    /\ pc[t] = "get" /\ Sched(t)
    /\ LET k == keyOf[t] IN
       IF TornStore
       THEN /\ priv' = [priv EXCEPT ![t] = lastVal]
            /\ pc' = [pc EXCEPT ![t] = "use"] /\ UNCHANGED failed
       ELSE IF k \in DOMAIN cache
            THEN /\ priv' = [priv EXCEPT ![t] = cache[k]]
                 /\ pc' = [pc EXCEPT ![t] = "use"] /\ UNCHANGED failed
            ELSE /\ failed' = [failed EXCEPT ![t] = TRUE]     \* KeyError escapes: 500
                 /\ pc' = [pc EXCEPT ![t] = "done"] /\ UNCHANGED priv
    /\ UNCHANGED <<cache, order, lastKey, lastVal, slot, resp>>

Compute(t) ==
    /\ pc[t] = "compute" /\ Sched(t)
    /\ priv' = [priv EXCEPT ![t] = F(keyOf[t])]
    /\ slot' = IF SharedResult THEN F(keyOf[t]) ELSE slot
    /\ pc' = [pc EXCEPT ![t] = "store"]
    /\ UNCHANGED <<cache, order, lastKey, lastVal, resp, failed>>

Store(t) ==
    /\ pc[t] = "store" /\ Sched(t)
    /\ IF TornStore
       THEN /\ lastKey' = keyOf[t] /\ pc' = [pc EXCEPT ![t] = "store2"] /\ UNCHANGED <<cache, order>>
       ELSE /\ Insert(keyOf[t]) /\ pc' = [pc EXCEPT ![t] = "use"] /\ UNCHANGED lastKey
    /\ UNCHANGED <<lastVal, slot, priv, resp, failed>>

Store2(t) ==
    /\ pc[t] = "store2" /\ Sched(t)
    /\ lastVal' = priv[t]
    /\ pc' = [pc EXCEPT ![t] = "use"]
    /\ UNCHANGED <<cache, order, lastKey, slot, priv, resp, failed>>

(* ---- the rest of the request: the result is rendered into the response ------------- *)
Use(t) ==
    /\ pc[t] = "use" /\ Sched(t)
    /\ resp' = [resp EXCEPT ![t] = IF SharedResult /\ slot # None THEN slot ELSE priv[t]]
    /\ pc' = [pc EXCEPT ![t] = "done"]
    /\ UNCHANGED <<cache, order, lastKey, lastVal, slot, priv, failed>>

Step(t) == Check(t) \/ Get(t) \/ Compute(t) \/ Store(t) \/ Store2(t) \/ Use(t)
Next == \E t \in Threads : Step(t)
Spec == Init /\ [][Next]_vars

(* ---- properties -------------------------------------------------------------------- *)
NoRequestFails == \A t \in Threads : ~failed[t]
SerialResponse == \A t \in Threads : (pc[t] = "done" /\ ~failed[t]) => resp[t] = F(keyOf[t])
CacheBounded   == Len(order) <= Cap /\ DOMAIN cache = Range(order)
CacheIsFunctionOfKey == \A k \in DOMAIN cache : cache[k] = F(k)
============================================================================
