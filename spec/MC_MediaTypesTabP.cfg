INIT Init
NEXT XNext
CONSTANTS
  Ranges <- RangesP
  MTypes <- MTypesP
  AllM <- AllMP
  MaxRanges = 2
  MaxCands = 0
  SubBeforeExact = TRUE
  Positive = TRUE
  QSplits = FALSE
INVARIANT EmitTableP
