INIT Init
NEXT Next
CONSTANT KnownSets <- OnlyProperty
INVARIANT Sound
