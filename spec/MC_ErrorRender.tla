---------------------------- MODULE MC_ErrorRender ----------------------------
EXTENDS ErrorRender, Json, IOUtils
A(rs) == [absent |-> FALSE, malformed |-> FALSE, raw |-> "", msfx |-> "", ranges |-> rs]
Bad(raw, sfx) == [absent |-> FALSE, malformed |-> TRUE, raw |-> raw, msfx |-> sfx, ranges |-> <<>>]
Absent == [absent |-> TRUE, malformed |-> FALSE, raw |-> "", msfx |-> "", ranges |-> <<>>]
R(t, s, q) == Range(t, s, q, "")
TAG == MT("application", "x-verif-tag")
MCAccepts == {
    Absent,
    A(<<R("application", "json", 10)>>),
    A(<<R("text", "xml", 10)>>),
    A(<<R("application", "xml", 10)>>),
    A(<<R("application", "json", 5), R("text", "xml", 10)>>),
    A(<<R("text", "xml", 5), R("application", "json", 10)>>),
    A(<<R("text", "xml", 10), R("application", "json", 10)>>),
    A(<<R("application", "xml", 9), R("text", "xml", 9), R("application", "json", 8)>>),
    A(<<R("*", "*", 10)>>),
    A(<<R("text", "*", 10)>>),
    A(<<R("application", "*", 10)>>),
    A(<<R("application", "*", 2), R("text", "xml", 1)>>),
    A(<<R("application", "json", 0), R("*", "*", 10)>>),
    A(<<R("application", "json", 0), R("application", "*", 10)>>),
    A(<<R("*", "*", 1), R("application", "xml", 3)>>),
    A(<<Range("application", "vnd.verif+json", 10, "json")>>),
    A(<<Range("application", "vnd.verif+xml", 10, "xml")>>),
    A(<<Range("application", "vnd.verif+xml", 10, "xml"), Range("application", "vnd.verif+json", 5, "json")>>),
    A(<<R("image", "png", 10)>>),
    A(<<R("image", "png", 10), R("application", "x-verif-tag", 4)>>),
    A(<<R("application", "x-verif-tag", 10), R("application", "json", 10)>>),
    A(<<R("application", "x-verif-tag", 10), R("application", "json", 9)>>),
    A(<<R("application", "x-www-form-urlencoded", 10)>>),
    A(<<R("multipart", "form-data", 10)>>),
    A(<<R("multipart", "*", 10), R("application", "json", 5)>>),
    \* the same media ranges in other spellings (media types are case-insensitive)
    A(<<Spelled(Range("application", "vnd.verif+json", 10, "json"), "sfx")>>),       \* application/vnd.verif+JSON
    A(<<Spelled(Range("application", "vnd.verif+xml", 10, "xml"), "upper")>>),       \* APPLICATION/VND.VERIF+XML
    A(<<Spelled(Range("application", "vnd.verif+json", 10, "json"), "mixed")>>),
    A(<<Spelled(Range("application", "vnd.verif+xml", 10, "xml"), "sfx"), Spelled(Range("application", "vnd.verif+json", 5, "json"), "upper")>>),
    A(<<R("image", "png", 10), Spelled(Range("application", "vnd.verif.v2+xml", 3, "xml"), "mixed")>>),
    Bad("FOO+JSON", "json"),
    Bad("Bar+Xml;;", "xml"),
    Bad("garbage", ""),
    Bad("foo+json", "json"),
    Bad("bar+xml;;", "xml") }
MCExtra == {<<>>, <<TAG>>, <<APPXML>>, <<TAG, TEXTXML>>}
E(d, c, l) == [status |-> 422, desc |-> d, code |-> c, link |-> l, shape |-> "plain", ctor |-> NoCtor]
(* second table: error classes (to_dict overrides, header-bearing constructors, redirects) x a few Accept classes *)
S(shape, d) == [status |-> 422, desc |-> d, code |-> TRUE, link |-> FALSE, shape |-> shape, ctor |-> NoCtor]
C(st, kind, n, date, items, loc) ==
    [status |-> st, desc |-> TRUE, code |-> FALSE, link |-> FALSE, shape |-> "plain",
     ctor |-> [kind |-> kind, n |-> n, date |-> date, items |-> items, loc |-> loc]]
Retry(st) == {C(st, "retry", -1, FALSE, <<>>, ""), C(st, "retry", 0, FALSE, <<>>, ""), C(st, "retry", 1, FALSE, <<>>, ""),
              C(st, "retry", -1, TRUE, <<>>, "")}
Odd == "/caf<e9> \"q\"?a=b&c=d e"      \* <e9> stands for U+00E9 (TLA+ strings are ASCII)
MCClassErrors ==
    {S(sh, d) : sh \in {"adds", "drops", "renames"}, d \in BOOLEAN}
    \cup Retry(413) \cup Retry(429) \cup Retry(503)
    \cup {C(405, "allow", -1, FALSE, <<>>, ""), C(405, "allow", -1, FALSE, <<"GET">>, ""),
          C(405, "allow", -1, FALSE, <<"GET", "POST", "PATCH">>, "")}
    \cup {C(416, "range", 0, FALSE, <<>>, ""), C(416, "range", 10, FALSE, <<>>, "")}
    \cup {C(401, "challenge", -1, FALSE, <<>>, ""), C(401, "challenge", -1, FALSE, <<"Basic realm=\"x\"">>, ""),
          C(401, "challenge", -1, FALSE, <<"Basic realm=\"x\"", "Bearer">>, "")}
    \cup {C(301, "location", -1, FALSE, <<>>, "/new/place"), C(302, "location", -1, FALSE, <<>>, Odd),
          C(303, "location", -1, FALSE, <<>>, "http://example.com/x?y=1"), C(307, "location", -1, FALSE, <<>>, Odd),
          C(308, "location", -1, FALSE, <<>>, "/new/place")}
MCClassAccepts == {Absent, A(<<R("application", "json", 10)>>), A(<<R("text", "xml", 10)>>),
                   A(<<R("application", "x-verif-tag", 10), R("application", "json", 9)>>),
                   A(<<R("application", "x-www-form-urlencoded", 10)>>), A(<<R("image", "png", 10)>>),
                   A(<<Range("application", "vnd.verif+json", 10, "json")>>),
                   A(<<Spelled(Range("application", "vnd.verif+json", 10, "json"), "upper")>>)}
MCClassExtra == {<<>>, <<TAG>>}
MCErrors == {E(d, c, l) : d \in BOOLEAN, c \in BOOLEAN, l \in BOOLEAN}
MCErrorsQ == {E(FALSE, FALSE, FALSE), E(TRUE, TRUE, TRUE), E(TRUE, FALSE, TRUE)}
MCWrongRender == IF "WRONG_RENDER" \in DOMAIN IOEnv THEN IOEnv.WRONG_RENDER ELSE "none"
XRenderError == Done = FALSE /\ RenderError
MCNext == XRenderError
Emit == Done => PrintT(ToJson([acc |-> acc, xmlOn |-> xmlOn, extra |-> extra, err |-> err, out |-> out]))
===============================================================================
