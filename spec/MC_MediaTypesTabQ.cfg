INIT Init
NEXT XNext
CONSTANTS
  Ranges <- RangesQ
  MTypes <- MTypesQ
  AllM <- AllMQ
  MaxRanges = 2
  MaxCands = 0
  SubBeforeExact = TRUE
  Positive = TRUE
  QSplits = FALSE
INVARIANT EmitTable
