---------------------------- MODULE MC_HandlersError ----------------------------
EXTENDS HandlersError, Json
VARIABLE h
CONSTANT Depth
TJson == MT("a", "x", <<>>)          \* application/json
TAXml == MT("a", "m", <<>>)          \* application/xml
TTXml == MT("b", "m", <<>>)          \* text/xml
TYaml == MT("a", "y", <<>>)          \* a type the app registers itself
CS     == Pm("charset", "utf-8")
TAXmlC == MT("a", "m", <<CS>>)       \* application/xml; charset=utf-8: serves application/xml without being literally equal
TJsonC == MT("a", "x", <<CS>>)       \* application/json; charset=utf-8
TAStar == MT("a", "*", <<>>)         \* application/*
TStar  == MT("*", "*", <<>>)         \* */*
TVJson == MT("a", "w", <<>>)         \* application/vnd.v1+json (never registered: reaches the +json fallback)
TVXml  == MT("c", "v", <<>>)         \* image/vnd.v1+xml
MCSufJson == {"w"}
MCSufXml  == {"v"}
(* exhaustive instance: the literal keys next to keys that only MATCH the predefined types *)
MCKeys == {TJson, TAXml, TAXmlC, TAStar}
SimKeys == {TJson, TAXml, TAXmlC, TJsonC, TAStar, TStar, TYaml, TTXml}
R(t, q) == MR(t.t, t.s, t.pm, q)
MCAccepts == { <<R(TYaml, QABSENT), R(TJson, 100000)>>,      \* prefers the registered type, JSON at q=0.1
               <<R(TAXml, QABSENT), R(TJson, 500000)>>,      \* prefers XML
               <<R(TYaml, QABSENT)>>,                        \* only the registered type
               <<R(TTXml, 900000), R(TYaml, 800000)>>,
               <<MR("*", "*", <<>>, QABSENT)>>,
               <<R(TJson, QABSENT)>>,
               <<R(TAXml, QABSENT)>>,                        \* only application/xml
               <<R(TVJson, QABSENT)>>,                       \* +json fallback
               <<R(TVXml, QABSENT), R(TYaml, 0)>> }          \* +xml fallback
SimAccepts == MCAccepts \cup { <<R(TTXml, QABSENT)>>, <<R(TAXml, QABSENT), R(TJson, 0)>>, <<R(TVXml, 500000)>>,
                               <<MRP("a", "m", <<CS>>, 500000, 0), R(TJson, 100000)>>,
                               <<R(TVJson, QABSENT), R(TVXml, QABSENT)>> }
Bound == TLCGet("level") <= Depth
View == <<objs, offmemo, IF last.op = "error" THEN elast ELSE [o |-> 0, hdr |-> <<>>, xml |-> FALSE, ct |-> NOKEY, enc |-> NOBODY], last.op = "error">>
Keep == UNCHANGED h
LogE == h' = Append(h, [call |-> last', err |-> elast', map |-> objs'[1].map,
                        adm |-> AdmittedEnc(objs'[1].map, elast'.ct, elast'.xml)])
MMutate == (\E o \in DOMAIN objs : EMutate(o)) /\ Keep
MError  == (\E o \in DOMAIN objs : \E hdr \in Accepts, xml \in BOOLEAN : RenderError(o, hdr, xml)) /\ Keep
MNext   == MMutate \/ MError
MCInit  == EInit /\ h = <<>>
(* leg A: histories as JSON; errors get most of the steps (Update / UpdateFail have the largest fan-out otherwise) *)
FInit == EInit /\ h = <<[call |-> last, err |-> elast, map |-> objs[1].map, adm |-> {NOBODY}]>>
FMutate == (\E o \in DOMAIN objs : EMutate(o)) /\ LogE
FError  == (\E o \in DOMAIN objs : \E hdr \in Accepts, xml \in BOOLEAN : RenderError(o, hdr, xml)) /\ LogE
FNext   == FMutate \/ FError
EmitFull == (Len(h) = Depth + 1) => PrintT(ToJson([ev |-> h]))
=================================================================================
