INIT MCInit
NEXT XNext
CONSTANTS
  MaxVersions = 4
  SetterInvalidates = FALSE
  Depth = 0
INVARIANT RenderingIsFresh
INVARIANT SentIsLastAssigned
INVARIANT RenderedWhatWouldBeSent
