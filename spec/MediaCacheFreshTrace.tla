-------------------------- MODULE MediaCacheFreshTrace --------------------------
(* Trace judge for FreshPerRequest.  A trace is a history of real requests carrying payloads from a
   small set (byte-identical bodies for equal payload ids), on either stack and any app:
     ev[i] = [op: "get", p, fresh, eq] | [op: "edit", r]
   fresh: the object get_media() returned is none of the objects earlier requests of the history got;
   eq: it equals the trusted decoding of the body of THIS request (before the responder edits it).
     P:shared   the request was handed an object another request already holds
     P:stale    its media is not the decoding of its own body                                  *)
EXTENDS MediaCacheFresh, Json, IOUtils
Traces == JsonDeserialize(IOEnv.TRACE_FILE)
VARIABLES tid, l, verdict
tvars == <<tid, l, verdict, reqs, content, memo, last>>
T == Traces[tid]
TInit == tid \in 1..Len(Traces) /\ l = 1 /\ verdict = "ok" /\ Init
Step ==
    /\ l >= 1 /\ l <= Len(T.ev) /\ verdict = "ok"
    /\ LET e == T.ev[l] IN
         IF e.op = "get" /\ e.p \in Payloads /\ Len(reqs) < MaxReqs
         THEN /\ Request(e.p)
              /\ verdict' = IF e.fresh # last'.fresh THEN "P:shared" ELSE IF e.eq # last'.eq THEN "P:stale" ELSE "ok"
         ELSE IF e.op = "edit" /\ e.r \in DOMAIN reqs
         THEN Edit(e.r) /\ verdict' = "ok"
         ELSE verdict' = "H:invalid" /\ UNCHANGED vars
    /\ l' = l + 1 /\ UNCHANGED tid
Done ==
    /\ l >= 1 /\ (l > Len(T.ev) \/ verdict # "ok")
    /\ PrintT(<<"VERDICT", tid, verdict, l - 1>>)
    /\ l' = -1 /\ UNCHANGED <<tid, verdict, reqs, content, memo, last>>
TNext == Step \/ Done
Sound == FreshPerRequest /\ OneObjectPerRequest
================================================================================
