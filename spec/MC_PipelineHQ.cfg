INIT Init
NEXT MCNext
CONSTANTS
  Stacks <- StackFull1
  Indeps <- OnlyIndep
  Targets <- AllTargets
  MaxHooks = 0
  InitRegs <- NoRegs
  RegClasses <- C4RegClassesQ
  RegBehs <- C4RegBehs
  MaxRegs = 2
  RaiseClasses <- C4RaiseQ
  RenderClasses <- C4RenderQ
  Mro <- MCMro
  StatusOf <- MCStatus
  OwnVary <- MCOwnVary
  MaxReqs = 2
  WrongDesign = "none"
  SameObj = FALSE
  MaxFaults = 1
INVARIANT TypeOK
INVARIANT ReqTopDown
INVARIANT ResourceMwOnlyIfRouted
INVARIANT ResponderOnlyIfClean
INVARIANT ResponseBottomUp
INVARIANT ResponseOnce
INVARIANT SucceededIffNoRaise
INVARIANT MostSpecificWins
INVARIANT LatestRegistrationWins
INVARIANT HandlerFollowsRaise
INVARIANT EveryRaiseHandled
INVARIANT StaleBodyDiscarded
INVARIANT NeverEscapesByDefault
INVARIANT HandlerRaisedErrorIsRendered
INVARIANT DefaultRendering
