---------------------------- MODULE StaticRouteOps ----------------------------
(* C16: static routes never leave their directory and serve exactly the requested bytes.

   A request names a file by a *string*: a sequence of atoms.  An atom is a separator, a dot,
   a white-space character, a backslash, a member of the disallowed character class, or an
   opaque name fragment (rendered by the harness as one or more harmless characters).  The
   file system is a small constant tree with a directory `root` that is served, a sibling
   directory whose name has the root's name as a string prefix, and files outside the root.

   The module has two layers.
     * The PROPERTY layer (LexTarget, Plain, RangeSat, PVerdict): what the statement of C16
       demands of any implementation - which files may be opened, which file may be served
       for a spelling, which status/body/Content-Range/Content-Length a served file admits.
     * The DESIGN layer (Rejects, NormPath, PrefixReject, FinalReject, Serve, RangeDesign,
       Expected): the sanitiser / open / conditional / range pipeline as designed, one named
       operator per check, with switches for the wrong designs.  DVerdict compares an
       observation with it; a difference there is model detail, not a property violation.
   StaticRoute.tla runs one request through the pipeline as a state machine and states the
   invariants; StaticRouteTrace.tla judges observations of the implementation with Verdict. *)
EXTENDS Bytes, TLC

CONSTANTS
    CheckDotDotPrefix,   \* reject a normalised remainder that starts with "../"
    CheckAbsPrefix,      \* reject a normalised remainder that starts with "/"
    CheckFinalDots,      \* final sanity check: ".." occurs in the joined path
    CheckFinalPrefix,    \* final sanity check: joined path does not start with the directory string
    PlusOne,             \* length of first-last is last - first + 1
    UnsatGe,             \* first >= size is unsatisfiable (wrong design: first > size)
    ImsLe,               \* not modified iff last_modified <= if_modified_since (wrong design: <)
    ImsLocalTime,        \* wrong design: If-Modified-Since is converted through the process's local time
    ImsNotAfterNow,      \* wrong design: an If-Modified-Since later than the server's clock is treated as absent
    BigPositions         \* Range positions are compared as the numbers the client wrote, however large (wrong design:
                         \* the position is handed to the operating system - seek() - before it is compared with the
                         \* size, and a position no file offset can hold fails there: "no such file")

(* the part of the file system that changes between requests: the file root/m is absent (0) or present in one of
   two versions of different size and content (1, 2).  Every operator below is evaluated in the current state. *)
VARIABLE mstate

(* ------------------------------------------------------------------------------------- *)
(* atoms and strings                                                                      *)
SEP == "/"
DOT == "."
SP  == "sp"        \* a white-space character that is not a control character
BSL == "bsl"       \* backslash
BAD == "bad"       \* control / C1 / U+FFFD / ~ ? < > : * | ' "
DD  == <<DOT, DOT>>

MaxWidth == 512    \* longest remainder the sanitiser looks at, in characters

(* rendered width of an atom in characters: name fragments are rendered with exactly this length *)
Width(a) == CASE a = "L"    -> 171
              [] a = "M"    -> 170
              [] a = "base" -> 11
              [] a = "root" -> 4
              [] a \in {"sub", "fb3", "tmp"} -> 3
              [] a \in {SEP, DOT, SP, BSL, BAD, "x", "t", "u", "m"} -> 1
              [] OTHER -> 2
RECURSIVE StrWidth(_)
StrWidth(s) == IF s = <<>> THEN 0 ELSE Width(Head(s)) + StrWidth(Tail(s))

(* s.split('/') : a non-empty sequence of segments *)
RECURSIVE Split(_)
Split(s) ==
    IF s = <<>> THEN << <<>> >>
    ELSE LET rest == Split(Tail(s)) IN
         IF Head(s) = SEP THEN << <<>> >> \o rest
         ELSE << <<Head(s)>> \o rest[1] >> \o Tail(rest)

RECURSIVE JoinSegs(_)
JoinSegs(comps) == IF comps = <<>> THEN <<>>
                   ELSE IF Len(comps) = 1 THEN comps[1]
                   ELSE comps[1] \o <<SEP>> \o JoinSegs(Tail(comps))

Last(s) == s[Len(s)]
Front(s) == SubSeq(s, 1, Len(s) - 1)

(* ------------------------------------------------------------------------------------- *)
(* the file system: absolute paths are sequences of segments; size -1 marks a directory   *)
Tmp    == << <<"tmp">> >>
Base   == Tmp \o << <<"base">> >>                 \* the scratch directory the harness creates: /tmp/<base>
Root   == Base \o << <<"root">> >>
Sib    == Base \o << <<"root", "x">> >>           \* ".../rootx": shares the root's name as a string prefix
F(dir, seg, size, tag) == [path |-> dir \o <<seg>>, size |-> size, tag |-> tag]
D(p) == [path |-> p, size |-> -1, tag |-> 0]
MutFS == CASE mstate = 1 -> {F(Root, <<"m">>, 3, 12)} [] mstate = 2 -> {F(Root, <<"m">>, 5, 13)} [] OTHER -> {}
StaticFS ==
      { D(<<>>), D(Tmp), D(Base), D(Root), D(Sib), D(Root \o << <<"sub">> >>),
        F(Root, <<"f0">>, 0, 1), F(Root, <<"f1">>, 1, 2), F(Root, <<"f2">>, 2, 3), F(Root, <<"f3">>, 3, 4),
        F(Root, <<"f4">>, 4, 5), F(Root, <<"f5", DOT, "t">>, 5, 6), F(Root, <<"f6">>, 6, 7),
        F(Root \o << <<"sub">> >>, <<"g2">>, 2, 8),
        F(Sib, <<"s4">>, 4, 9), F(Base, <<"o5">>, 5, 10), F(Base, <<"fb3">>, 3, 11) }

FS == MutFS \cup StaticFS
NoEnt == [path |-> <<>>, size |-> -2, tag |-> 0]
Ent(p)    == IF \E e \in FS : e.path = p THEN CHOOSE e \in FS : e.path = p ELSE NoEnt
IsDir(p)  == Ent(p).size = -1
IsFile(p) == Ent(p).size >= 0
RECURSIVE ContentSeq(_, _)
ContentSeq(tag, n) == IF n <= 0 THEN <<>> ELSE Append(ContentSeq(tag, n - 1), tag * 8 + n - 1)
Content(p) == ContentSeq(Ent(p).tag, Ent(p).size)                    \* distinct bytes per file
FAIL == << <<"#">> >>                                               \* "no file"

DirStr == <<SEP>> \o JoinSegs(Root)                 \* the configured directory, normalised
FbPath(fb) == IF fb = "in" THEN Root \o << <<"sub">>, <<"g2">> >> ELSE Base \o << <<"fb3">> >>
FbStr(fb)  == <<SEP>> \o JoinSegs(FbPath(fb))

(* ------------------------------------------------------------------------------------- *)
(* lexical normalisation (POSIX os.path.normpath)                                        *)
Lead(s) == IF s = <<>> \/ s[1] # SEP THEN 0
           ELSE IF Len(s) >= 2 /\ s[2] = SEP /\ ~(Len(s) >= 3 /\ s[3] = SEP) THEN 2 ELSE 1

RECURSIVE NormComps(_, _, _)
NormComps(comps, acc, init) ==
    IF comps = <<>> THEN acc
    ELSE LET c == Head(comps) IN
         IF c = <<>> \/ c = <<DOT>> THEN NormComps(Tail(comps), acc, init)
         ELSE IF c # DD \/ (init = 0 /\ acc = <<>>) \/ (acc # <<>> /\ Last(acc) = DD)
              THEN NormComps(Tail(comps), Append(acc, c), init)
         ELSE IF acc # <<>> THEN NormComps(Tail(comps), Front(acc), init)
         ELSE NormComps(Tail(comps), acc, init)

NormPath(s) ==
    IF s = <<>> THEN <<DOT>>
    ELSE LET init == Lead(s)
             r == (CASE init = 0 -> <<>> [] init = 1 -> <<SEP>> [] OTHER -> <<SEP, SEP>>) \o JoinSegs(NormComps(Split(s), <<>>, init))
         IN  IF r = <<>> THEN <<DOT>> ELSE r

(* where an absolute path string points, lexically: "in" the root, the outside "fb", or "out" *)
LexAbs(fp) == NormComps(Split(fp), <<>>, 1)
Loc(fp, fb) == LET p == LexAbs(fp) IN
               IF IsPrefix(Root, p) THEN "in"
               ELSE IF fb # "none" /\ p = FbPath(fb) THEN "fb"
               ELSE "out"

(* what the operating system does with open(fp): walk the components *)
RECURSIVE Walk(_, _)
Walk(comps, cur) ==
    IF comps = <<>> \/ cur = FAIL THEN cur
    ELSE LET c == Head(comps) IN
         IF ~IsDir(cur) THEN FAIL
         ELSE IF c = <<>> \/ c = <<DOT>> THEN Walk(Tail(comps), cur)
         ELSE IF c = DD THEN Walk(Tail(comps), IF cur = <<>> THEN cur ELSE Front(cur))
         ELSE IF Ent(Append(cur, c)) # NoEnt THEN Walk(Tail(comps), Append(cur, c))
         ELSE FAIL
OpenResult(fp) == LET r == Walk(Split(fp), <<>>) IN IF r # FAIL /\ IsFile(r) THEN r ELSE FAIL

(* ------------------------------------------------------------------------------------- *)
(* DESIGN layer: the sanitiser                                                            *)
RECURSIVE LStripSp(_)
LStripSp(s) == IF s # <<>> /\ Head(s) = SP THEN LStripSp(Tail(s)) ELSE s
RECURSIVE RStrip(_, _)
RStrip(s, a) == IF s # <<>> /\ Last(s) = a THEN RStrip(Front(s), a) ELSE s

SurroundingSpaceOrTrailingDots(s) == RStrip(RStrip(LStripSp(s), SP), DOT) # s
HasAtom(s, a) == \E i \in 1..Len(s) : s[i] = a

Rejects(s, hasfb) ==
    \/ (s = <<>> /\ ~hasfb)
    \/ SurroundingSpaceOrTrailingDots(s)
    \/ HasAtom(s, BAD)
    \/ HasAtom(s, BSL)
    \/ Occurs(s, <<SEP, SEP>>)
    \/ StrWidth(s) > MaxWidth

PrefixReject(norm) == \/ (CheckDotDotPrefix /\ IsPrefix(<<DOT, DOT, SEP>>, norm))
                      \/ (CheckAbsPrefix /\ IsPrefix(<<SEP>>, norm))
FilePath(norm) == IF IsPrefix(<<SEP>>, norm) THEN norm ELSE DirStr \o <<SEP>> \o norm     \* os.path.join
FinalReject(fp) == \/ (CheckFinalDots /\ Occurs(fp, DD))
                   \/ (CheckFinalPrefix /\ ~IsPrefix(DirStr, fp))

(* a request: remainder string, fallback configuration, how the prefix was spelled, Range, If-Modified-Since
     fb    "none" | "in" (a file inside the root) | "out" (an absolute path outside the root)
     head  "under" (prefix + "/" + remainder) | "bare" (the prefix without its trailing slash, remainder empty)
     range [k |-> "none"|"fl"|"f"|"s"|"unit"|"bad", a |-> first or suffix length, b |-> last, ha, hb]
           a position is a numeral of any length.  The specification knows it either as a small number (ha = 0:
           the number is a) or as Huge (ha > 0; a is then 0 and means nothing): a number beyond every file size,
           beyond every file offset the operating system accepts, beyond every fixed-width integer (2^31, 2^63,
           2^64, 10^30: the harness writes each of them).  Two Huge numbers of one request are ordered by their
           rank ha, hb in 1..2 (equal rank: the same number).  Every comparison below goes through PosLt /
           BeyondSize / Clamp, so what is decided for Huge is decided for every such number.
     ims   [k |-> "none" | "bad" | "date", d |-> If-Modified-Since minus the file's modification time
            truncated to whole seconds, both as UTC instants, in seconds]
     zone  the time zone of the serving process (an environment dimension: no outcome may depend on it)
     clock where the server's clock stands relative to the file's modification time (likewise)          *)
NoServe(opens) == [file |-> FAIL, opens |-> opens]
Serve(c) ==
    LET hasfb == c.fb # "none" IN
    IF c.head = "bare" /\ ~hasfb THEN NoServe(<<>>)                 \* the route does not match at all
    ELSE IF Rejects(c.path, hasfb) THEN NoServe(<<>>)
    ELSE LET norm == NormPath(c.path) IN
         IF PrefixReject(norm) THEN NoServe(<<>>)
         ELSE LET fp == FilePath(norm) IN
              IF FinalReject(fp) THEN NoServe(<<>>)
              ELSE LET f == OpenResult(fp) IN
                   IF f # FAIL THEN [file |-> f, opens |-> <<Loc(fp, c.fb)>>]
                   ELSE IF hasfb THEN [file |-> FbPath(c.fb), opens |-> <<Loc(fp, c.fb), Loc(FbStr(c.fb), c.fb)>>]
                   ELSE NoServe(<<Loc(fp, c.fb)>>)

(* responses: cr = <<start, end, size>>; absent <<-1,-1,-1>>; "bytes * / size" is <<-2,-2,size>>; clen -1 = absent *)
NoCR == <<-1, -1, -1>>
Star(n) == <<-2, -2, n>>
Resp(st, body, cr, clen) == [status |-> st, body |-> body, cr |-> cr, clen |-> clen]
Full(C)    == Resp(200, C, NoCR, Len(C))
Err(st)    == Resp(st, <<>>, NoCR, -1)         \* bodies of error responses are not modelled (projected away)

(* arithmetic on positions <<value, rank>> (rank 0: the small number `value`; rank > 0: Huge) *)
PosA(r) == <<r.a, r.ha>>
PosB(r) == <<r.b, r.hb>>
IsHuge(p) == p[2] > 0
PosLt(p, q) == IF IsHuge(p) \/ IsHuge(q) THEN p[2] < q[2] ELSE p[1] < q[1]
PosIsZero(p) == ~IsHuge(p) /\ p[1] = 0
BeyondSize(p, n) == IsHuge(p) \/ p[1] >= n               \* position >= n, for a size n
PastSize(p, n)   == IsHuge(p) \/ p[1] > n
Clamp(p, m) == IF IsHuge(p) THEN m ELSE Min(p[1], m)     \* min(position, m), for a small number m
Val(p) == p[1]                                           \* only where ~IsHuge(p) has been established

(* range arithmetic as designed: a (first, last) pair in the style of Request.range, then _set_range *)
RangeDesign(C, r) ==
    LET n == Len(C)
        a == PosA(r)
        b == PosB(r)
        Part(start, length, cr) == Resp(206, Slice(C, start, start + length), cr, length)
        Unsat(start) == IF UnsatGe THEN BeyondSize(start, n) ELSE PastSize(start, n)
        Len1(s, e) == IF PlusOne THEN e - s + 1 ELSE e - s
        (* SeekBeforeCompare (wrong design): a Huge position reaches seek(); the smaller Huge numbers (rank 1) still
           fit a file offset and behave, the larger ones (rank 2) fail there *)
        SeekFails == ~BigPositions /\ n > 0 /\ (a[2] >= 2 \/ b[2] >= 2)
    IN  CASE r.k \in {"none", "unit"} -> Full(C)
          [] r.k = "bad" -> Err(400)
          [] r.k = "fl" -> IF PosLt(b, a) THEN Err(400)
                           ELSE IF n = 0 THEN Full(C)
                           ELSE IF SeekFails THEN Err(404)
                           ELSE IF Unsat(a) THEN Resp(416, <<>>, Star(n), -1)
                           ELSE LET e == Clamp(b, n - 1) IN Part(Val(a), Len1(Val(a), e), <<Val(a), e, n>>)
          [] r.k = "f"  -> IF n = 0 THEN Full(C)
                           ELSE IF SeekFails THEN Err(404)
                           ELSE IF Unsat(a) THEN Resp(416, <<>>, Star(n), -1)
                           ELSE Part(Val(a), n - Val(a), <<Val(a), n - 1, n>>)
          [] r.k = "s"  -> IF PosIsZero(a) THEN Err(400)       \* SuffixZeroIsMalformed: "-0" cannot be expressed by Request.range
                           ELSE IF n = 0 THEN Full(C)           \* ZeroSizeIgnoresRange
                           ELSE IF SeekFails THEN Err(404)
                           ELSE LET start == -Clamp(a, n) IN Part(n + start, -start, <<n + start, n - 1, n>>)

(* the process time zones the harness runs under; offset east of UTC in seconds at the two modification
   times the harness uses (September 2001, January 2002) *)
AllZones == {"UTC", "Etc/GMT+5", "XXX5", "America/New_York", "Asia/Tokyo", "YYY-9", "Pacific/Kiritimati",
             "Pacific/Pago_Pago"}
ZoneOffsets(z) == CASE z = "UTC" -> <<0, 0>>
                    [] z \in {"Etc/GMT+5", "XXX5"} -> <<-18000, -18000>>
                    [] z = "America/New_York" -> <<-14400, -18000>>
                    [] z \in {"Asia/Tokyo", "YYY-9"} -> <<32400, 32400>>
                    [] z = "Pacific/Kiritimati" -> <<50400, 50400>>
                    [] z = "Pacific/Pago_Pago" -> <<-39600, -39600>>
NoIms == [k |-> "none", d |-> 0]
(* the server's clock relative to the file's modification time (the harness gives the files these times):
   two past epochs (2001, 2002: about 25 years before now) and two future ones (now + 1 day, now + 10 years) *)
AllClocks == {"past", "past2", "future1d", "future10y"}
NowMinusMtime(k) == CASE k = "past" -> 790000000 [] k = "past2" -> 780000000      \* approximately
                      [] k = "future1d" -> -86400 [] k = "future10y" -> -315360000
(* ReadsUtcTupleAsLocalTime (wrong design): mktime() of the UTC fields gives the instant minus the offset *)
NotModified(c) ==
    /\ c.ims.k = "date"
    /\ LET d == IF ImsLocalTime THEN c.ims.d - ZoneOffsets(c.zone)[1] ELSE c.ims.d
       IN  IF ImsLe THEN d >= 0 ELSE d > 0
    /\ (ImsNotAfterNow => c.ims.d <= NowMinusMtime(c.clock))      \* DateAheadOfClockIsInvalid (wrong design)

RespFor(f, c) ==
    IF c.ims.k = "bad" THEN Err(400)
    ELSE IF NotModified(c) THEN Resp(304, <<>>, NoCR, -1)
    ELSE RangeDesign(Content(f), c.range)

(* lm: Last-Modified minus the file's modification time truncated to seconds (UTC instants); projected for
   200/206/304 only *)
NoLM == -999999999
Obs(resp, opens) == [status |-> resp.status, body |-> resp.body, cr |-> resp.cr, clen |-> resp.clen,
                     opens |-> opens, exc |-> FALSE,
                     lm |-> IF resp.status \in {200, 206, 304} THEN 0 ELSE NoLM]
Expected(c) == LET s == Serve(c) IN
               IF s.file = FAIL THEN Obs(Err(404), s.opens) ELSE Obs(RespFor(s.file, c), s.opens)

(* ------------------------------------------------------------------------------------- *)
(* PROPERTY layer                                                                         *)
(* the file a spelling denotes when the remainder is appended to the directory and resolved lexically *)
LexTarget(s) == LET p == LexAbs(DirStr \o <<SEP>> \o s) IN
                IF IsPrefix(Root, p) /\ IsFile(p) THEN p ELSE FAIL
(* an ordinary spelling: names separated by single slashes, nothing the statement lists as hostile *)
Plain(s) == /\ s # <<>>
            /\ ~HasAtom(s, SP) /\ ~HasAtom(s, BSL) /\ ~HasAtom(s, BAD)
            /\ StrWidth(s) <= MaxWidth
            /\ \A i \in 1..Len(Split(s)) : LET g == Split(s)[i] IN
                   g # <<>> /\ Last(g) # DOT /\ (\E j \in 1..Len(g) : g[j] # DOT)
MustServe(c) == c.head = "under" /\ Plain(c.path) /\ LexTarget(c.path) # FAIL
MayServe(c)  == IF MustServe(c) THEN {LexTarget(c.path)}
                ELSE (IF c.head = "under" /\ LexTarget(c.path) # FAIL THEN {LexTarget(c.path)} ELSE {})
                     \cup (IF c.fb # "none" THEN {FbPath(c.fb)} ELSE {})

(* RFC 9110 14.1.2 reading of a single byte range against a representation of n > 0 bytes *)
RangeClass(r, n) ==
    CASE r.k \in {"none", "unit"} -> "full"
      [] r.k = "bad" -> "bad"
      [] r.k = "fl" /\ PosLt(PosB(r), PosA(r)) -> "bad"
      [] r.k = "s" /\ PosIsZero(PosA(r)) -> "bad"  \* lenient: 400 or the full body (RFC: unsatisfiable)
      [] n = 0 -> "zero"
      [] r.k \in {"fl", "f"} /\ BeyondSize(PosA(r), n) -> "unsat"
      [] OTHER -> "sat"
(* only for class "sat": the first position is then a small number below n *)
RangeSat(r, n) == CASE r.k = "fl" -> <<r.a, Clamp(PosB(r), n - 1)>>
                    [] r.k = "f"  -> <<r.a, n - 1>>
                    [] OTHER      -> <<n - Clamp(PosA(r), n), n - 1>>

RespVerdict(f, c, o) ==
    LET C == Content(f)
        n == Len(C)
        rk == RangeClass(c.range, n)
        FullOK == IF o.status # 200 THEN "P:status"
                  ELSE IF o.body # C THEN "P:body"
                  ELSE IF o.cr # NoCR THEN "P:content-range"
                  ELSE IF o.clen \notin {-1, n} THEN "P:content-length"
                  ELSE "ok"
        (* a validator, when one is sent, is the file's modification time: a client that echoes it back must
           get 304 *)
        LastModifiedOK == IF o.status \in {200, 206, 304} /\ o.lm \notin {0, NoLM} THEN "P:last-modified" ELSE "ok"
        Rest ==
        IF o.status \notin {200, 206, 304, 400, 416} THEN "P:status"
        ELSE IF o.status = 400 THEN (IF c.ims.k = "bad" \/ rk = "bad" THEN "ok" ELSE "P:status")
        ELSE IF c.ims.k = "date" /\ c.ims.d >= 0
             THEN (IF o.status # 304 THEN "P:304" ELSE IF o.body # <<>> THEN "P:304-body" ELSE "ok")
        ELSE IF o.status = 304 THEN "P:304"
        ELSE CASE rk \in {"full", "bad"} -> FullOK
               [] rk = "zero"  -> IF o.status = 416 THEN (IF o.cr = Star(0) THEN "ok" ELSE "P:416-size") ELSE FullOK
               [] rk = "unsat" -> IF o.status # 416 THEN "P:416" ELSE IF o.cr # Star(n) THEN "P:416-size" ELSE "ok"
               [] rk = "sat"   -> LET se == RangeSat(c.range, n) IN
                                  IF o.status # 206 THEN "P:206"
                                  ELSE IF o.body # Slice(C, se[1], se[2] + 1) THEN "P:slice"
                                  ELSE IF o.cr # <<se[1], se[2], n>> THEN "P:content-range"
                                  ELSE IF o.clen # se[2] - se[1] + 1 THEN "P:content-length"
                                  ELSE "ok"
    IN  IF Rest # "ok" THEN Rest ELSE LastModifiedOK

PVerdict(c, o) ==
    IF o.exc THEN "P:exception"
    ELSE IF \E i \in 1..Len(o.opens) : o.opens[i] = "out" \/ (o.opens[i] = "fb" /\ c.fb # "out") THEN "P:containment"
    ELSE IF o.status = 404 THEN (IF MustServe(c) THEN "P:must-serve" ELSE "ok")
    ELSE LET cands == MayServe(c) IN
         IF cands = {} THEN "P:not-404"                       \* nothing may be served: anything else is a 404
         ELSE IF \E f \in cands : RespVerdict(f, c, o) = "ok" THEN "ok"
         ELSE LET prim == IF c.head = "under" /\ LexTarget(c.path) \in cands THEN LexTarget(c.path) ELSE FbPath(c.fb)
              IN  RespVerdict(prim, c, o)

DVerdict(c, o) ==
    LET e == Expected(c) IN
    IF o.status # e.status THEN "D:status"
    ELSE IF o.opens # e.opens THEN "D:opens"
    ELSE IF o.status \in {200, 206, 304} /\ o.body # e.body THEN "D:body"
    ELSE IF o.cr # e.cr THEN "D:content-range"
    ELSE IF o.status \in {200, 206, 304} /\ o.clen # e.clen THEN "D:content-length"
    ELSE IF o.lm # e.lm THEN "D:last-modified"
    ELSE "ok"

Verdict(c, o) == LET p == PVerdict(c, o) IN IF p # "ok" THEN p ELSE DVerdict(c, o)

=============================================================================
