------------------------- MODULE BodyStreamTrace -------------------------
(* Trace judge for C07.  Reads a JSON list of traces recorded from the real request streams
     [iface, cl, sent, evs, first, short, skip,
      ev: [op, n, res, lines, stop, err, eof, tell, recv, reach, rawpos]]
   makes every trace an initial state and replays it against the pure operators of
   BodyStreamOps (Body == Take(Sent, CL), the flat cursor of CursorOps, the end-of-body index
   of the event script).  Short reads are legal where the interface allows them, so the cursor
   advances by what the event says was returned; everything else is computed here.

   Total: every event is consumed; the first failing P-clause is recorded in `verdict` (and ends
   the run), the first failing D-clause in `dnote` (the run continues).
     P:blocks     a call waited for an event after the end of the body / after a disconnect, or hung
     P:exception  a call raised although the stream is open
     P:sized      a sized read returned more than its size
     P:overask    WSGI: the raw stream was asked for bytes behind Content-Length;
                  ASGI: receive() was awaited after the end of the body was known
     P:prefix     returned bytes are not the next bytes of Body
     P:stall      nothing returned (end of stream signalled) although Body has bytes left (open streams only)
     P:eof        eof reported with bytes of Body outstanding, or not reported at the known end
     P:tell       tell() differs from the number of bytes returned so far
   D-clauses (documented detail the property does not demand; never alarm):
     D:len / D:lines   a read was shorter than a full read / lines split differently
     D:recv            number of events consumed differs from the minimum needed
     D:closed          an operation on a closed ASGI stream did not raise
   A trace may list clauses in `skip`: they are not judged on that trace (used to keep looking
   behind an already recorded, known finding). *)
EXTENDS BodyStreamOps, TLC, Json, IOUtils

Traces == JsonDeserialize(IOEnv.TRACE_FILE)

VARIABLES tid, l, body, endIdx, pos, ret, rc, closed, exh, verdict, fl, dnote, dl
vars == <<tid, l, body, endIdx, pos, ret, rc, closed, exh, verdict, fl, dnote, dl>>

T == Traces[tid]
E == T.ev[l]
W == T.iface = "wsgi"

Init == /\ tid \in 1..Len(Traces) /\ l = 1
        /\ body = (IF Traces[tid].iface = "wsgi" THEN WBody(Traces[tid].sent, Traces[tid].cl)
                   ELSE ABody(Traces[tid].evs, Traces[tid].cl))
        /\ endIdx = (IF Traces[tid].iface = "wsgi" THEN 0 ELSE AEndIdx(Traces[tid].evs, Traces[tid].cl))
        /\ pos = 0 /\ ret = 0 /\ closed = FALSE /\ exh = FALSE
        /\ rc = (IF Traces[tid].first THEN 1 ELSE 0)
        /\ verdict = "ok" /\ fl = 0 /\ dnote = "" /\ dl = 0

Skipped(c) == \E i \in 1..Len(T.skip) : T.skip[i] = c
rest    == Drop(body, pos)
IsData  == E.op \in {"read", "readline", "readlines", "next", "iterall", "readall", "iter"}
Raised  == E.err # ""
Sized   == E.op \in {"read", "readline"} /\ E.n >= 0
AtEnd   == rc >= endIdx /\ pos = Len(body)               \* ASGI: the model stream knows it is at the end

(* where the cursor stands after the event (bound from what the event reports) *)
NPos == IF Raised THEN pos
        ELSE IF IsData THEN pos + Len(E.res)
        ELSE IF E.op = "exhaust"
               THEN (IF W THEN Max(pos, Min(E.rawpos, Len(body)))
                     ELSE IF E.recv >= endIdx THEN Len(body) ELSE Max(pos, Len(AAvail(T.evs, T.cl, E.recv))))
        ELSE pos
NRet    == IF ~Raised /\ IsData THEN ret + Len(E.res) ELSE ret
NClosed == closed \/ (E.op = "close" /\ ~Raised)
NExh    == exh \/ (E.op = "exhaust" /\ ~Raised)
EndKnown == IF W THEN NPos = WCL(T.cl) ELSE E.recv >= endIdx \/ (T.cl # NIL /\ NPos = T.cl)

PClauses == <<
   <<"P:blocks",    E.err \in {"blocked", "hang"}>>,
   <<"P:exception", E.err = "other" \/ (E.err = "closed" /\ ~closed)>>,
   <<"P:sized",     ~Raised /\ Sized /\ Len(E.res) > E.n>>,
   <<"P:overask",   IF W THEN E.reach > WCL(T.cl) ELSE E.recv > Max(endIdx, IF T.first THEN 1 ELSE 0)>>,
   <<"P:prefix",    ~Raised /\ IsData /\ ~IsPrefix(E.res, rest)>>,
   <<"P:stall",     ~Raised /\ ~closed /\ IsData /\ E.res = <<>> /\ rest # <<>> /\ ~(Sized /\ E.n = 0)>>,
   <<"P:eof",       ~Raised /\ (\/ (E.eof = 1 /\ ~NClosed /\ NPos # Len(body))
                                \/ (E.eof = 0 /\ NPos = Len(body) /\ EndKnown))>>,
   <<"P:tell",      ~W /\ ~NExh /\ E.tell # NRet>> >>

NeedIdx(k, need) == MinOf({j \in k..Len(T.evs) : AEnded(T.evs, T.cl, j) \/ Len(AAvail(T.evs, T.cl, j)) >= need}
                          \cup {Len(T.evs) + 1})
ExpRecv == IF closed \/ Raised THEN rc
           ELSE IF E.op = "read" /\ E.n > 0 /\ ~AtEnd THEN NeedIdx(rc, pos + E.n)
           ELSE IF E.op \in {"readall", "iter", "exhaust"} \/ (E.op = "read" /\ E.n < 0) THEN Max(rc, endIdx)
           ELSE rc
Full == CASE E.op = "read"     -> ExpRead(body, pos, E.n)
          [] E.op = "readline" -> ExpReadLine(body, pos, E.n)
          [] E.op = "next"     -> ExpReadLine(body, pos, -1)
          [] OTHER             -> rest
DClauses == <<
   <<"D:closed", closed /\ ~W /\ ~Raised /\ E.op # "close">>,
   <<"D:len",    ~Raised /\ ~closed /\ IsData /\ E.op \notin {"readlines", "iterall"} /\ ~(W /\ T.short /\ E.op = "read")
                 /\ E.res # Full>>,
   <<"D:lines",  ~Raised /\ ~closed /\ E.op \in {"readlines", "iterall"}
                 /\ E.lines # ExpReadLines(body, pos, IF E.op = "iterall" THEN -1 ELSE E.n)>>,
   <<"D:recv",   ~W /\ E.recv # ExpRecv>> >>

FirstOf(cs, skipping) ==
    LET S == {i \in 1..Len(cs) : cs[i][2] /\ ~(skipping /\ Skipped(cs[i][1]))}
    IN  IF S = {} THEN "" ELSE cs[MinOf(S)][1]

Step ==
    /\ l >= 1 /\ l <= Len(T.ev) /\ verdict = "ok"
    /\ LET p == IF Raised /\ E.err = "closed" /\ closed THEN "" ELSE FirstOf(PClauses, TRUE)
           d == IF p # "" THEN "" ELSE FirstOf(DClauses, FALSE)
       IN  /\ verdict' = (IF p = "" THEN "ok" ELSE p)
           /\ fl' = (IF p = "" THEN fl ELSE l)
           /\ dnote' = (IF dnote = "" /\ d # "" THEN d ELSE dnote)
           /\ dl' = (IF dnote = "" /\ d # "" THEN l ELSE dl)
    /\ pos' = Min(NPos, Len(body)) /\ ret' = NRet /\ closed' = NClosed /\ exh' = NExh
    /\ rc' = (IF W THEN 0 ELSE Max(rc, E.recv))
    /\ l' = l + 1 /\ UNCHANGED <<tid, body, endIdx>>

Done ==
    /\ l >= 1 /\ (l > Len(T.ev) \/ verdict # "ok")
    /\ PrintT(IF verdict # "ok" THEN <<"VERDICT", tid, verdict, fl>>
              ELSE IF dnote # "" THEN <<"VERDICT", tid, dnote, dl>>
              ELSE <<"VERDICT", tid, "ok", l - 1>>)
    /\ l' = -1 /\ UNCHANGED <<tid, body, endIdx, pos, ret, rc, closed, exh, verdict, fl, dnote, dl>>

Next == Step \/ Done
Spec == Init /\ [][Next]_vars
Sound == pos <= Len(body)
==========================================================================
