------------------------- MODULE BodyStreamTrace -------------------------
(* Trace judge for C07.  Reads a JSON list of traces recorded from the real request streams
     [iface, cl, alt0, refok, dzero, drefuse, sent, evs, first, short,
      ev: [op, n, res, lines, stop, err, eof, tell, recv, reach, rawpos]]
   makes every trace an initial state and replays it against the pure operators of
   BodyStreamOps (Body == Take(Sent, CL), the flat cursor of CursorOps, the end-of-body index
   of the event script).  Short reads are legal where the interface allows them, so the cursor
   advances by what the event says was returned; everything else is computed here.

   Content-Length.  `cl` is what a valid non-negative reading of the header allows (NIL: no
   header on ASGI; 0 for a header without such a reading).  For a header that only a lenient
   parser reads as a number (`alt0`) the stream may also treat it as unusable: the judge then
   tries both readings (ecl \in {cl, 0}) and the trace is accepted if one of them is.  A 4xx
   refusal when the stream is asked for (event "open", err "refused") is an accepted outcome for
   every header that is not strictly valid (`refok`).  Which of the accepted outcomes the code is
   expected to take (`dzero`, `drefuse`) is D.

   Total: every event is consumed; the first failing P-clause is recorded in `verdict` (and ends
   the run), the first failing D-clause in `dnote` (the run continues).
     P:blocks     a call waited for an event after the end of the body / after a disconnect, or hung
     P:exception  a call raised although the stream is open / the stream was refused for a valid header
     P:sized      a sized read returned more than its size
     P:beyond     more bytes were returned in total than Content-Length allows
     P:overask    WSGI: the raw stream was asked for bytes behind Content-Length;
                  ASGI: receive() was awaited after the end of the body was known
     P:prefix     returned bytes are not the next bytes of Body
     P:stall      nothing returned (end of stream signalled) although Body has bytes left (open streams only)
     P:exhaust    exhaust() returned with bytes of the declared body (that the server has) unconsumed
     P:eof        eof reported with bytes of Body outstanding, or not reported at the known end / after exhaust()
     P:tell       tell() differs from the number of bytes returned so far
   Async iteration is stepwise: "iternext" is one chunk, observed from inside the loop body while
   the generator is suspended (the generator looks at the more_body flag of the event it has just
   yielded from only when it is resumed, so inside the loop only a Content-Length end is "known").
   After "iterbreak" (a suspended iterator was abandoned; the documentation then promises
   nothing about further reads) only P:sized and P:beyond are judged.
   D-clauses (documented detail the property does not demand; never alarm):
     D:len / D:lines   a read was shorter than a full read / lines split differently
     D:recv            number of events consumed differs from the minimum needed
     D:closed          an operation on a closed ASGI stream did not raise
     D:clread / D:open the header was read / refused differently from what the code is known to do *)
EXTENDS BodyStreamOps, TLC, Json, IOUtils

Traces == JsonDeserialize(IOEnv.TRACE_FILE)

VARIABLES tid, l, ecl, body, endIdx, pos, ret, rc, closed, exh, ab, verdict, fl, dnote, dl
vars == <<tid, l, ecl, body, endIdx, pos, ret, rc, closed, exh, ab, verdict, fl, dnote, dl>>

T == Traces[tid]
E == T.ev[l]
W == T.iface = "wsgi"

Init == /\ tid \in 1..Len(Traces) /\ l = 1
        /\ ecl \in (IF Traces[tid].alt0 THEN {Traces[tid].cl, 0} ELSE {Traces[tid].cl})
        /\ body = (IF Traces[tid].iface = "wsgi" THEN WBody(Traces[tid].sent, ecl) ELSE ABody(Traces[tid].evs, ecl))
        /\ endIdx = (IF Traces[tid].iface = "wsgi" THEN 0 ELSE AEndIdx(Traces[tid].evs, ecl))
        /\ pos = 0 /\ ret = 0 /\ closed = FALSE /\ exh = FALSE /\ ab = FALSE
        /\ rc = (IF Traces[tid].first THEN 1 ELSE 0)
        /\ verdict = "ok" /\ fl = 0
        /\ dnote = (IF (ecl # Traces[tid].cl) # Traces[tid].dzero THEN "D:clread" ELSE "") /\ dl = 0

rest    == Drop(body, pos)
IsData  == E.op \in {"read", "readline", "readlines", "next", "iterall", "readall", "iter", "iternext"}
Raised  == E.err # ""
Sized   == E.op \in {"read", "readline"} /\ E.n >= 0
Nothing == (Sized /\ E.n = 0) \/ (~W /\ E.op = "read" /\ E.n < -1)    \* calls that ask for nothing
InLoop  == (E.op = "iternext" /\ ~E.stop) \/ E.op = "iterbreak"   \* observed while the generator is suspended / abandoned
AtEnd   == rc >= endIdx /\ pos = Len(body)                    \* ASGI: the model stream knows it is at the end
Limit   == IF W THEN WCL(ecl) ELSE ecl

(* where the cursor stands after the event (bound from what the event reports) *)
NPos == IF Raised THEN pos
        ELSE IF IsData THEN pos + Len(E.res)
        ELSE IF E.op = "exhaust"
               THEN (IF W THEN Max(pos, Min(E.rawpos, Len(body)))
                     ELSE IF E.recv >= endIdx THEN Len(body) ELSE Max(pos, Len(AAvail(T.evs, ecl, E.recv))))
        ELSE pos
NRet    == IF ~Raised /\ IsData THEN ret + Len(E.res) ELSE ret
NClosed == closed \/ (E.op = "close" /\ ~Raised)
NExh    == exh \/ (E.op = "exhaust" /\ ~Raised)
EndKnown == IF W THEN NPos = WCL(ecl)
            ELSE (E.recv >= endIdx /\ ~InLoop) \/ (ecl # NIL /\ NPos = ecl)

OpenClauses == <<                      \* the stream could not be had
   <<"P:exception", ~(E.err = "refused" /\ T.refok)>> >>
AbClauses == <<                        \* after an abandoned iteration
   <<"P:sized",     ~Raised /\ Sized /\ Len(E.res) > E.n>>,
   <<"P:beyond",    Limit # NIL /\ NRet > Limit>> >>
PClauses == <<
   <<"P:blocks",    E.err \in {"blocked", "hang"}>>,
   <<"P:exception", E.err = "other" \/ (E.err = "refused" /\ ~T.refok) \/ (E.err = "closed" /\ ~closed)>>,
   <<"P:sized",     ~Raised /\ Sized /\ Len(E.res) > E.n>>,
   <<"P:beyond",    Limit # NIL /\ NRet > Limit>>,
   <<"P:overask",   IF W THEN E.reach > WCL(ecl) ELSE E.recv > Max(endIdx, IF T.first THEN 1 ELSE 0)>>,
   <<"P:prefix",    ~Raised /\ IsData /\ ~IsPrefix(E.res, rest)>>,
   <<"P:stall",     ~Raised /\ ~closed /\ IsData /\ E.res = <<>> /\ rest # <<>> /\ ~Nothing>>,
   <<"P:exhaust",   ~Raised /\ ~closed /\ E.op = "exhaust"
                    /\ (IF W THEN E.rawpos < Len(body) ELSE E.recv < endIdx)>>,
   <<"P:eof",       ~Raised /\ (\/ (E.eof = 1 /\ ~NClosed /\ NPos # Len(body))
                                \/ (E.eof = 0 /\ NPos = Len(body) /\ EndKnown)
                                \/ (E.eof = 0 /\ E.op = "exhaust"))>>,
   <<"P:tell",      ~W /\ ~NExh /\ E.tell # NRet>> >>

NeedIdx(k, need) == MinOf({j \in k..Len(T.evs) : AEnded(T.evs, ecl, j) \/ Len(AAvail(T.evs, ecl, j)) >= need}
                          \cup {Len(T.evs) + 1})
ExpRecv == IF closed \/ Raised THEN rc
           ELSE IF E.op = "read" /\ E.n > 0 /\ ~AtEnd THEN NeedIdx(rc, pos + E.n)
           ELSE IF E.op = "iternext" /\ ~AtEnd THEN NeedIdx(rc, pos + 1)
           ELSE IF E.op \in {"readall", "iter", "exhaust"} \/ (E.op = "read" /\ E.n = -1) THEN Max(rc, endIdx)
           ELSE rc
Full == CASE E.op = "read" /\ ~W /\ E.n < -1 -> <<>>
          [] E.op = "read"     -> ExpRead(body, pos, E.n)
          [] E.op = "readline" -> ExpReadLine(body, pos, E.n)
          [] E.op = "next"     -> ExpReadLine(body, pos, -1)
          [] E.op = "iternext" -> LET j == Min(NeedIdx(rc, pos + 1), Len(T.evs))
                                  IN  Slice(body, pos, Max(pos, Len(AAvail(T.evs, ecl, j))))
          [] OTHER             -> rest
DClauses == <<
   <<"D:open",   l = 1 /\ T.drefuse>>,
   <<"D:closed", closed /\ ~W /\ ~Raised /\ E.op # "close">>,
   <<"D:len",    ~Raised /\ ~closed /\ IsData /\ E.op \notin {"readlines", "iterall"} /\ ~(W /\ T.short /\ E.op = "read")
                 /\ E.res # Full>>,
   <<"D:lines",  ~Raised /\ ~closed /\ E.op \in {"readlines", "iterall"}
                 /\ E.lines # ExpReadLines(body, pos, IF E.op = "iterall" THEN -1 ELSE E.n)>>,
   <<"D:recv",   ~W /\ E.recv # ExpRecv>> >>
OpenDClauses == << <<"D:open", ~T.drefuse>> >>

FirstOf(cs) ==
    LET S == {i \in 1..Len(cs) : cs[i][2]}
    IN  IF S = {} THEN "" ELSE cs[MinOf(S)][1]

Step ==
    /\ l >= 1 /\ l <= Len(T.ev) /\ verdict = "ok"
    /\ LET open == E.op = "open"
           p == IF open THEN FirstOf(OpenClauses)
                ELSE IF ab THEN (IF Raised THEN "" ELSE FirstOf(AbClauses))
                ELSE IF Raised /\ E.err = "closed" /\ closed THEN ""
                ELSE FirstOf(PClauses)
           d == IF p # "" \/ ab THEN "" ELSE IF open THEN FirstOf(OpenDClauses) ELSE FirstOf(DClauses)
       IN  /\ verdict' = (IF p = "" THEN "ok" ELSE p)
           /\ fl' = (IF p = "" THEN fl ELSE l)
           /\ dnote' = (IF dnote = "" /\ d # "" THEN d ELSE dnote)
           /\ dl' = (IF dnote = "" /\ d # "" THEN l ELSE dl)
    /\ pos' = (IF ab THEN pos ELSE Min(NPos, Len(body))) /\ ret' = NRet /\ closed' = NClosed /\ exh' = NExh
    /\ ab' = (ab \/ E.op = "iterbreak")
    /\ rc' = (IF W THEN 0 ELSE Max(rc, E.recv))
    /\ l' = l + 1 /\ UNCHANGED <<tid, ecl, body, endIdx>>

Done ==
    /\ l >= 1 /\ (l > Len(T.ev) \/ verdict # "ok")
    /\ LET prim == IF ecl = T.cl THEN 1 ELSE 0         \* 1: the run that reads the header as the number it holds
       IN  PrintT(IF verdict # "ok" THEN <<"VERDICT", tid, verdict, fl, prim>>
                  ELSE IF dnote # "" THEN <<"VERDICT", tid, dnote, dl, prim>>
                  ELSE <<"VERDICT", tid, "ok", l - 1, prim>>)
    /\ l' = -1 /\ UNCHANGED <<tid, ecl, body, endIdx, pos, ret, rc, closed, exh, ab, verdict, fl, dnote, dl>>

Next == Step \/ Done
Spec == Init /\ [][Next]_vars
Sound == pos <= Len(body)
==========================================================================
