---------------------------- MODULE Router ----------------------------
(* C01: the compiled router resolves every path as a plain depth-first walk of the tree of
   accepted URI templates dictates; a rejected add_route is a no-op; lookups never fail.

   A template is a sequence of indices into TS (the instance's template segments, see
   SegMatch); a path is a non-empty sequence of path segments (the request path without its
   leading slashes, split at "/").  A tree maps a node = the sequence of segment indices
   leading to it (so a node IS its template) to [res, kids]: res = resource of the route that
   ends here (0 = none), kids = child segment indices in creation order.

   Three layers:
     reference   RefTree(accepted): the trie of the accepted templates, defined declaratively;
                 Lookup = depth-first walk with backtracking; BestMatch = the same answer
                 defined without a walk (priority-minimal matching template).
     design      `tree` grown incrementally by AddRoute (walk, conflict rules, rejections),
                 `finder` = the generated program: a snapshot of `tree`, taken eagerly
                 (compile flag) or at the first lookup; only an ACCEPTED add discards it.
     switches    Rollback   = a rejected add removes every node it created (FALSE: only the
                              path-converter node itself is removed -- nodes created above it stay;
                              the shape of the code before defect F1 of DESIGN section 6 was repaired)
                 ResetOnAdd = an accepted add discards the generated program
   With both switches TRUE the invariants below hold; each FALSE setting breaks one. *)
EXTENDS SegMatch, TLC

CONSTANTS TS,          \* sequence of template segments of this instance
          BadNames,    \* field names that are not valid identifiers
          Templates,   \* templates offered to AddRoute
          Paths,       \* paths offered to Find
          MaxAdds,     \* bound on the number of add_route calls
          Rollback, ResetOnAdd

VARIABLES accepted,    \* ghost: <<[t, r]>> the accepted adds, in order
          tree,        \* what the router holds
          finder,      \* [lazy, t]: the generated program is a snapshot t of the tree, or not yet made
          nadds,       \* number of add_route calls so far (also names the resources)
          last         \* the last call and its outcome
vars == <<accepted, tree, finder, nadds, last>>

Seg(i) == TS[i]
(* per-segment facts, tabulated once (constant level).  TS is read once per table (LET): an instance
   may define it by an expression that is expensive to evaluate before TLC has cached it *)
KindOf  == LET ts == TS IN [i \in DOMAIN ts |-> Kind(ts[i])]
RankOf  == LET ts == TS IN [i \in DOMAIN ts |-> Rank(ts[i])]
ShapeOf == LET ts == TS IN [i \in DOMAIN ts |-> Shape(ts[i])]
PathSegs   == LET ts == TS IN {i \in DOMAIN ts : IsPathSeg(ts[i])}       \* {name:path}, {name:<user-defined multi-segment converter>}
PathInside == LET ts == TS IN {i \in DOMAIN ts : HasPathField(ts[i])}    \* a path field anywhere in the segment
MatchAt(i, s) == MatchK(KindOf[i], TS[i], s)                              \* = Match(TS[i], s)
Last(s) == s[Len(s)]
Front(s) == SubSeq(s, 1, Len(s) - 1)
Range(s) == {s[i] : i \in DOMAIN s}

(* ---------------- request paths ---------------- *)
(* the router strips every leading "/" before splitting: leading empty segments vanish *)
RECURSIVE Norm(_)
Norm(p) == IF Len(p) > 1 /\ p[1] = <<>> THEN Norm(Tail(p)) ELSE p

(* ---------------- trees ---------------- *)
NoRes == 0
Leaf == [res |-> NoRes, kids |-> <<>>]
EmptyTree == (<<>> :> Leaf)

(* children in visiting order: literal < multi-field < single-field, creation order within a kind *)
OfRank(kids, k) == SelectSeq(kids, LAMBDA s : RankOf[s] = k)
Sorted(kids) == OfRank(kids, 0) \o OfRank(kids, 1) \o OfRank(kids, 2)

(* ---------------- lookup: depth-first walk with backtracking ---------------- *)
Miss == [found |-> FALSE, node |-> <<>>, res |-> NoRes, params |-> <<>>]
Hit(t, n, params) == [found |-> TRUE, node |-> n, res |-> t[n].res, params |-> params]

RECURSIVE Dfs(_, _, _, _)
Dfs(t, pre, path, params) ==
    LET lvl  == Len(pre) + 1
        kids == Sorted(t[pre].kids)
        RECURSIVE Try(_)
        Try(i) ==
            IF i > Len(kids) THEN Miss
            ELSE LET s == kids[i]  n == Append(pre, s)  seg == Seg(s) IN
                 IF s \in PathSegs
                 THEN (LET val == IF t[n].res # NoRes      \* a trailing multi-segment field swallows the rest of the path,
                                  THEN ConvertRest(seg.items[1].c, SubSeq(path, lvl, Len(path)))   \* its converter sees the LIST
                                  ELSE None IN
                       IF val # None
                       THEN Hit(t, n, params \o <<Cap(seg.items[1].f, val)>>)
                       ELSE Try(i + 1))             \* no route here, or the converter vetoes: on to the next sibling
                 ELSE LET m == MatchAt(s, path[lvl]) IN
                      IF ~m.ok THEN Try(i + 1)
                      ELSE LET deeper == IF Len(path) > lvl THEN Dfs(t, n, path, params \o m.caps) ELSE Miss IN
                           IF deeper.found THEN deeper
                           ELSE IF Len(path) = lvl /\ t[n].res # NoRes THEN Hit(t, n, params \o m.caps)
                           ELSE Try(i + 1)                      \* backtrack: nothing of this branch is kept
    IN  IF lvl > Len(path) THEN Miss ELSE Try(1)

Lookup(t, p) == Dfs(t, <<>>, Norm(p), <<>>)

(* ---------------- add_route ---------------- *)
BadSeg(ts) ==                                  \* a segment no template may contain
    \E i \in DOMAIN ts.items : LET it == ts.items[i] IN
       IF IsFld(it)
       THEN \/ it.f \in BadNames                                      \* not an identifier
            \/ \E j \in 1..(i - 1) : IsFld(ts.items[j]) /\ ts.items[j].f = it.f
            \/ (it.c.k # "" /\ it.c.k \notin KnownConverters)
            \/ (it.c.k = "int" /\ it.c.nd # -1 /\ it.c.nd < 1)        \* converter cannot be instantiated
       ELSE \E j \in DOMAIN it.v : it.v[j] \in Blank                   \* white space in literal text
BadSegs == LET ts == TS IN {i \in DOMAIN ts : BadSeg(ts[i])}
NamesOf == LET ts == TS IN [i \in DOMAIN ts |-> FieldNames(ts[i])]
Invalid(tp) ==
    \/ \E i \in DOMAIN tp : tp[i] \in BadSegs
    \/ \E i, j \in DOMAIN tp : i < j /\ NamesOf[tp[i]] \cap NamesOf[tp[j]] # {}     \* duplicate field name

(* two different sibling segments that cannot coexist *)
Conflicts(a, b) == \/ KindOf[a] = "var" /\ KindOf[b] = "var"
                   \/ KindOf[a] = "cx" /\ KindOf[b] = "cx" /\ ShapeOf[a] = ShapeOf[b]

(* the chain of nodes a template needs below the existing node `pre`, starting at index i:
   outcome and the nodes created before the outcome was known *)
RECURSIVE NewChain(_, _, _, _)
NewChain(tp, i, pre, made) ==
    LET n == Append(pre, tp[i]) IN
    IF KindOf[tp[i]] = "cx" /\ tp[i] \in PathInside THEN [out |-> "pathInMulti", made |-> made]
    ELSE IF i = Len(tp) THEN [out |-> "ok", made |-> Append(made, n)]
    ELSE IF tp[i] \in PathSegs THEN [out |-> "pathNotLast", made |-> made]   \* this one node is taken out again
    ELSE NewChain(tp, i + 1, n, Append(made, n))

RECURSIVE Walk(_, _, _, _)
Walk(t, tp, i, pre) ==
    LET s == tp[i]  kids == t[pre].kids
        RECURSIVE Scan(_)
        Scan(j) ==
            IF j > Len(kids) THEN NewChain(tp, i, pre, <<>>)
            ELSE IF kids[j] = s
                 THEN (IF i = Len(tp) THEN [out |-> "ok", made |-> <<>>]           \* overrides the route at this node
                       ELSE IF s \in PathInside THEN [out |-> "pathNotLast", made |-> <<>>]
                       ELSE Walk(t, tp, i + 1, Append(pre, s)))
            ELSE IF Conflicts(kids[j], s) THEN [out |-> "conflict", made |-> <<>>]
            ELSE Scan(j + 1)
    IN  Scan(1)

(* graft a chain of new nodes (each the parent of the next) into t *)
Graft(t, made) ==
    IF made = <<>> THEN t
    ELSE LET top == made[1]  par == Front(top) IN
         [n \in (DOMAIN t) \cup Range(made) |->
            IF n = par THEN [t[par] EXCEPT !.kids = Append(@, Last(top))]
            ELSE IF n \in DOMAIN t THEN t[n]
            ELSE [res |-> NoRes, kids |-> IF n = Last(made) THEN <<>> ELSE <<made[Len(n) - Len(top) + 2][Len(n) + 1]>>]]

(* add_route(tp, r) on tree t: outcome and the resulting tree *)
AddTo(t, tp, r, rollback) ==
    IF Invalid(tp) THEN [out |-> "invalid", t |-> t]
    ELSE LET w == Walk(t, tp, 1, <<>>) IN
         IF w.out = "ok" THEN [out |-> "ok", t |-> [Graft(t, w.made) EXCEPT ![tp].res = r]]
         ELSE [out |-> w.out, t |-> IF rollback THEN t ELSE Graft(t, w.made)]

Outcome(t, tp) == AddTo(t, tp, 1, TRUE).out

(* ---------------- reference: the trie of the accepted templates ---------------- *)
IsPrefixOf(pre, tp) == Len(pre) <= Len(tp) /\ SubSeq(tp, 1, Len(pre)) = pre
RefNodes(acc) == {<<>>} \cup UNION {{SubSeq(acc[i].t, 1, k) : k \in 1..Len(acc[i].t)} : i \in DOMAIN acc}
RECURSIVE RefKids(_, _, _)
RefKids(acc, pre, i) ==                    \* children of pre among the first i accepted templates, by first appearance
    IF i = 0 THEN <<>>
    ELSE LET prev == RefKids(acc, pre, i - 1)  tp == acc[i].t IN
         IF Len(tp) > Len(pre) /\ IsPrefixOf(pre, tp) /\ tp[Len(pre) + 1] \notin Range(prev)
         THEN Append(prev, tp[Len(pre) + 1]) ELSE prev
RefRes(acc, n) == LET I == {i \in DOMAIN acc : acc[i].t = n} IN
                  IF I = {} THEN NoRes ELSE acc[CHOOSE i \in I : \A j \in I : j <= i].r   \* the latest add wins
RefTree(acc) == [n \in RefNodes(acc) |-> [res |-> RefRes(acc, n), kids |-> RefKids(acc, n, Len(acc))]]

(* the same answer without a walk: among the routes whose template matches the whole path, the
   one that comes first when siblings are ordered (kind rank, first appearance) *)
Routes(acc) == {n \in RefNodes(acc) : RefRes(acc, n) # NoRes}
TmplMatches(tp, p) ==
    IF Last(tp) \in PathSegs
    THEN /\ Len(p) >= Len(tp) /\ \A i \in 1..(Len(tp) - 1) : MatchAt(tp[i], p[i]).ok
         /\ ConvertRest(Seg(Last(tp)).items[1].c, SubSeq(p, Len(tp), Len(p))) # None
    ELSE Len(p) = Len(tp) /\ \A i \in 1..Len(tp) : MatchAt(tp[i], p[i]).ok
TmplParams(tp, p) ==
    Concat([i \in DOMAIN tp |->
              IF tp[i] \in PathSegs
              THEN <<Cap(Seg(tp[i]).items[1].f, ConvertRest(Seg(tp[i]).items[1].c, SubSeq(p, i, Len(p))))>>
              ELSE MatchAt(tp[i], p[i]).caps])
FirstAt(acc, n) == CHOOSE i \in DOMAIN acc : IsPrefixOf(n, acc[i].t) /\ \A j \in 1..(i - 1) : ~IsPrefixOf(n, acc[j].t)
Before(acc, a, b) ==                       \* route a is visited before route b (a # b, neither a prefix of the other)
    LET k == CHOOSE k \in 1..Len(a) : a[k] # b[k] /\ \A j \in 1..(k - 1) : a[j] = b[j]
        ra == RankOf[a[k]]  rb == RankOf[b[k]]
    IN  ra < rb \/ (ra = rb /\ FirstAt(acc, SubSeq(a, 1, k)) < FirstAt(acc, SubSeq(b, 1, k)))
BestOf(acc, routes, p0) ==                 \* routes = Routes(acc), passed in so that it is computed once per state
    LET p == Norm(p0)
        C == {n \in routes : TmplMatches(n, p)}
    IN  IF C = {} THEN Miss
        ELSE LET b == CHOOSE b \in C : \A o \in C \ {b} : Before(acc, b, o)
             IN  [found |-> TRUE, node |-> b, res |-> RefRes(acc, b), params |-> TmplParams(b, p)]
BestMatch(acc, p) == BestOf(acc, Routes(acc), p)

(* ---------------- the state machine ---------------- *)
Rec(op, t, r, c, p, out, x) ==
    [op |-> op, t |-> t, r |-> r, c |-> c, p |-> p, out |-> out,
     found |-> x.found, res |-> x.res, tmpl |-> x.node, params |-> x.params]

Init == /\ accepted = <<>> /\ tree = EmptyTree /\ finder = [lazy |-> TRUE, t |-> EmptyTree]
        /\ nadds = 0 /\ last = Rec("init", <<>>, 0, FALSE, <<>>, "", Miss)

AddRoute(tp, compile) ==
    /\ nadds < MaxAdds
    /\ nadds' = nadds + 1
    /\ LET a == AddTo(tree, tp, nadds + 1, Rollback) IN
         /\ tree' = a.t
         /\ last' = Rec("add", tp, nadds + 1, compile, <<>>, a.out, Miss)
         /\ IF a.out = "ok"
            THEN /\ accepted' = Append(accepted, [t |-> tp, r |-> nadds + 1])
                 /\ finder' = IF compile THEN [lazy |-> FALSE, t |-> a.t]
                              ELSE IF ResetOnAdd THEN [lazy |-> TRUE, t |-> EmptyTree]
                              ELSE finder
            ELSE UNCHANGED <<accepted, finder>>          \* a rejection is raised before the program is touched

AddAccept(tp, c)          == AddRoute(tp, c) /\ last'.out = "ok"
AddRejectInvalid(tp, c)   == AddRoute(tp, c) /\ last'.out = "invalid"
AddRejectConflict(tp, c)  == AddRoute(tp, c) /\ last'.out = "conflict"
AddRejectPathNotLast(tp, c) == AddRoute(tp, c) /\ last'.out \in {"pathNotLast", "pathInMulti"}

FinderTree == IF finder.lazy THEN tree ELSE finder.t      \* the tree the next lookup is answered from

Compile == finder' = [lazy |-> FALSE, t |-> FinderTree]   \* the first lookup generates the program

Find(p) ==
    /\ Compile
    /\ LET x == Lookup(FinderTree, p) IN
         last' = Rec("find", <<>>, 0, FALSE, p, IF x.found THEN "hit" ELSE "miss", x)
    /\ UNCHANGED <<accepted, tree, nadds>>

Next == \/ \E tp \in Templates, c \in BOOLEAN : AddRoute(tp, c)
        \/ \E p \in Paths : Find(p)
Spec == Init /\ [][Next]_vars

(* ---------------- properties ---------------- *)
(* every lookup is answered as the walk over the accepted templates answers it: left-over
   nodes and stale programs never show *)
FindIsIdealDFS == LET ft == FinderTree  rt == RefTree(accepted) IN
                  ft = rt \/ \A p \in Paths : Lookup(ft, p) = Lookup(rt, p)
(* the walk returns the priority-first matching route with exactly its own field values *)
WalkIsBestMatch == LET rt == RefTree(accepted)  routes == Routes(accepted) IN
                   \A p \in Paths : Lookup(rt, p) = BestOf(accepted, routes, p)
(* the parameters are those of the matched template: nothing from an abandoned branch, nothing missing *)
NoLeak == LET ft == FinderTree IN
          \A p \in Paths : LET x == Lookup(ft, p) IN
             x.found => /\ {x.params[i].f : i \in DOMAIN x.params} = UNION {NamesOf[x.node[i]] : i \in DOMAIN x.node}
                        /\ \A i, j \in DOMAIN x.params : x.params[i].f = x.params[j].f => i = j
(* a rejected add changes nothing observable: every possible next add is decided as if the
   rejected ones had never been made (and, with FindIsIdealDFS, so is every lookup) *)
RejectIsNoOp == LET rt == RefTree(accepted) IN tree = rt \/ \A tp \in Templates : Outcome(tree, tp) = Outcome(rt, tp)
(* the incremental tree is the trie of the accepted templates (holds iff Rollback) *)
TreeIsRef == tree = RefTree(accepted)
=======================================================================
