SPECIFICATION MCSpec
CONSTANTS
  NT = 2
  Threads <- MCThreads
  Keys <- MCKeys
  Cap = 2
  WarmSet <- MCWarm
  AtomicLookup = TRUE
  TornStore = TRUE
  SharedResult = FALSE
  MaxPre = 1
INVARIANT NoRequestFails
INVARIANT SerialResponse
INVARIANT CacheBounded
INVARIANT CacheIsFunctionOfKey
CHECK_DEADLOCK FALSE
