SPECIFICATION MCSpec
CONSTANTS
  NT = 3
  Threads <- MCThreads
  Keys <- MCKeys
  Cap = 2
  WarmSet <- MCWarm
  AtomicLookup = TRUE
  TornStore = FALSE
  SharedResult = FALSE
  MaxPre <- Unbounded
INVARIANT NoRequestFails
INVARIANT SerialResponse
INVARIANT CacheBounded
INVARIANT CacheIsFunctionOfKey
CHECK_DEADLOCK FALSE
