\* vacuity witness: close() that stops the pump BEFORE the close event went out must violate Conserved
\* (the event in the pump's hand is dropped when the send fails and the application goes on receiving)
INIT XInit
NEXT XNext
CONSTANTS
  MaxQs = {1}
  NMsg = 2
  DiscChoices = {FALSE}
  GeCmp = TRUE
  AwaitStop = TRUE
  NotifyPop = TRUE
  ReleaseOnEnd = TRUE
  Faults = FALSE
  StopAfterSend = FALSE
  CleanupOnDisc = TRUE
  MaxSendFail = 1
  Family = "none"
  MaxOps = 3
  MaxCancel = 0
  Depth = 0
INVARIANT Conserved
