INIT Init
NEXT Next
CONSTANTS
  Methods = {"GET"}
  MaxHeaders = 1
  NTargets = 2
  NQueries = 1
  NPool = 2
  NBodies = 2
  NEndpoints = 2
  Kinds = {"echo"}
  NOptions = 1
  Statuses = {204}
  PlainShare = 0
  NForwarding = 1
  UnderscoreNames = TRUE
INVARIANT EncodingsAgree
