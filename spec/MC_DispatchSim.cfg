INIT AInit
NEXT ANext
CONSTANTS
  Templates <- MCTemplates
  ResKinds <- MCResKinds
  SinkPats <- MCSinkPats
  StaticPrefixes <- MCStaticPrefixes
  Methods <- MCMethods
  Paths <- MCPaths
  MaxCalls = 4
  NewestFirst = TRUE
  RoutesFirst = TRUE
INVARIANT EmitDeep
