INIT MCInit
NEXT MCNext
CONSTANTS
  RenderSetsType = FALSE
  BodilessByLine = FALSE
  ForgetCloseOnFault = FALSE
  StaleLengthOnRenderFault = FALSE
  StatusStringAsIs = FALSE
  ReturnOnDisconnect = FALSE
  Tier = "quick"
  Ifaces = {"wsgi", "wsgifw", "asgi"}
  Codes = {200, 204, 304, 100, 299}
  Methods = {"GET", "HEAD"}
  TextLens <- L_5
  DataLens <- L_04
  MediaLens <- L_7
  SseScripts <- S_q
  PresetCLs <- CL_3
INVARIANT Emit
