INIT MCInit
NEXT XNext
CONSTANTS
  Conns = {1, 2}
  Bases = {1, 2}
  Kinds = {"text"}
  Marks = {7}
  ShareDecoded = FALSE
  MemoEncoded = TRUE
  MaxFrames = 2
  MaxHeap = 2
  MaxMut = 1
  MaxDistinct = 3
  MaxSends = 1
  Depth = 0
INVARIANT SentIsEncodingAtCall
