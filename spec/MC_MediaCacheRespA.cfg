INIT MCInit
NEXT ANext
CONSTANTS
  MaxVersions = 4
  SetterInvalidates = TRUE
  Depth = 4
INVARIANT Emit
