-------------------------- MODULE ErrorRenderTrace --------------------------
(* Judge for the rendering clause of C04: each trace is one observed rendering
   [acc, xmlOn, extra, err, obs: [status, kind, ctype, vary, fields, flat]] of an HTTPError by a real
   application; the expected rendering is ErrorRender!Render.
     P4:render-status   the response does not carry the error's own status
     P4:vary            Vary: Accept missing
     P4:ownheaders      a header the error class derives from its constructor arguments is missing or has another value
     P4:negotiation     the body is not in the representation the client's preferences select
     P4:fields          the document does not have exactly the error's fields
     D:nobody D:ctype   model detail (what is sent when nothing is acceptable; content-type quirks) *)
EXTENDS ErrorRender, Json, IOUtils
Traces == JsonDeserialize(IOEnv.TRACE_FILE)
Empty == {}
VARIABLES tid, st
T == Traces[tid]
SetOf(s) == {s[j] : j \in 1..Len(s)}
TInit == /\ tid \in 1..Len(Traces) /\ st = "run"
         /\ acc = Traces[tid].acc /\ xmlOn = Traces[tid].xmlOn /\ extra = Traces[tid].extra
         /\ err = Traces[tid].err /\ out = Pending
Verdict ==
    LET o == T.obs IN
    IF o.status # out.status THEN "P4:render-status"
    ELSE IF out.vary /\ ~o.vary THEN "P4:vary"
    ELSE IF SetOf(o.own) # out.own THEN "P4:ownheaders"
    ELSE IF out.kind # "none" /\ o.kind # out.kind THEN "P4:negotiation"
    ELSE IF out.kind # "none" /\ ~o.flat /\ SetOf(o.fields) # out.fields THEN "P4:fields"
    ELSE IF out.kind = "none" /\ o.kind # "none" THEN "D:nobody"
    ELSE IF out.ctype # NONE /\ o.ctype # out.ctype THEN "D:ctype"
    ELSE "ok"
Step == /\ st = "run" /\ RenderError /\ st' = "fin" /\ UNCHANGED tid
Fin  == /\ st = "fin" /\ PrintT(<<"VERDICT", tid, Verdict, 1>>) /\ st' = "done" /\ UNCHANGED <<vars, tid>>
TNext == Step \/ Fin
=============================================================================
