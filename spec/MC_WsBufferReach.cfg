\* reachability witnesses (each "invariant" must be VIOLATED): a receive pending on an empty buffer while
\* the pump is cancelled by close() from the other task / ended by a server failure
INIT XInit
NEXT XNext
CONSTANTS
  MaxQs = {1}
  NMsg = 1
  DiscChoices = {FALSE}
  GeCmp = TRUE
  AwaitStop = TRUE
  NotifyPop = TRUE
  ReleaseOnEnd = TRUE
  Faults = TRUE
  StopAfterSend = TRUE
  CleanupOnDisc = TRUE
  MaxSendFail = 1
  Family = "none"
  MaxOps = 2
  MaxCancel = 0
  Depth = 0
INVARIANT ReleasedByClose
