INIT SInit
NEXT SNext
CONSTANTS
  Stacks <- NoStack
  Indeps <- OnlyIndep
  Targets <- OnlyRouted
  MaxHooks = 0
  InitRegs <- NoRegs
  RegClasses <- GRegClasses
  RegBehs <- SRegBehs
  MaxRegs = 3
  RaiseClasses <- GRaise
  RenderClasses <- None
  Mro <- MCMro
  StatusOf <- MCStatus
  OwnVary <- MCOwnVary
  MaxReqs = 4
  WrongDesign = "none"
  SameObj = TRUE
  MaxFaults = 1
INVARIANT EmitG
CONSTRAINT GPrune
