INIT MCInit
NEXT MNext
CONSTANTS
  Keys <- MCKeys
  HandlerIds = {1, 2}
  CTypes = {}
  Defaults = {}
  NoRaiseCalls = {}
  MaxObjs = 1
  MaxUpdate = 1
  ClearOnSet = TRUE
  ClearOnDelete = TRUE
  BareKeyShortcut = FALSE
  Accepts <- MCAccepts
  JsonT <- TJson
  TextXmlT <- TTXml
  AppXmlT <- TAXml
  SufJson <- MCSufJson
  SufXml <- MCSufXml
  MemoiseOffered = FALSE
  ExactLookup = FALSE
  Depth = 3
CONSTRAINT Bound
VIEW View
INVARIANT OfferedFollowsMapping
INVARIANT TypeAndBodyAgree
INVARIANT WellFormedMaps
