INIT Init
NEXT Next
CONSTANTS
  Methods = {"GET"}
  MaxHeaders = 1
  NTargets = 11
  NQueries = 1
  NPool = 16
  NBodies = 8
  NEndpoints = 8
  Kinds = {"echo"}
  NOptions = 2
  UnderscoreNames = FALSE
INVARIANT GeneratedAreWellFormed
INVARIANT EncodingsAgree
INVARIANT ClientSaysTheSame
INVARIANT RawMaterialKept
