INIT Init
NEXT Next
CONSTANTS
  Methods = {"GET"}
  MaxHeaders = 1
  NTargets = 11
  NQueries = 1
  NPool = 16
  NBodies = 8
  NEndpoints = 8
  Kinds = {"echo"}
  NOptions = 2
  Statuses = {204}
  PlainShare = 0
  NForwarding = 1
  UnderscoreNames = FALSE
INVARIANT GeneratedAreWellFormed
INVARIANT EncodingsAgree
INVARIANT ClientSaysTheSame
INVARIANT RawMaterialKept
