INIT CkInit
NEXT CkNext
CONSTANTS
  NoLower = {}
  AppendGuard = TRUE
  FreshCookie = TRUE
  UseSecureDefault = TRUE
  SnapshotDefault = FALSE
  Depth = 1
  Bases = {"x-a"}
  Casings = {0}
  Vals = {"v1"}
  DefaultMedia = "application/json"
  Randomized = FALSE
  CkAlpha = {92, 48, 49, 55, 34, 59, 32, 97}
  CkLen = 4
  CkTwoPass = TRUE
  EncLen = 2
INVARIANT CookieRoundTrip
INVARIANT CkCodedIsAscii
