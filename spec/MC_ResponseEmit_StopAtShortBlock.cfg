INIT MCInit
NEXT MCNext
CONSTANTS
  RenderSetsType = FALSE
  BodilessByLine = FALSE
  ForgetCloseOnFault = FALSE
  StaleLengthOnRenderFault = FALSE
  StatusStringAsIs = FALSE
  ReturnOnDisconnect = FALSE
  StopAtShortBlock <- SwitchOn
  Tier = "tiny"
  Ifaces = {"wsgi", "asgi"}
  Codes = {200, 204}
  Methods = {"GET"}
  TextLens <- L_5
  DataLens <- L_no
  MediaLens <- L_7
  SseScripts <- S_no
  PresetCLs <- CL_no
INVARIANT ExactlyOneStart
INVARIANT OnlyLastHasNoMoreBody
INVARIANT NothingAfterFinal
INVARIANT Precedence
INVARIANT LengthConsistent
INVARIANT BodilessHaveNoBytes
INVARIANT TypelessHaveNoFrameworkType
INVARIANT OthersHaveType
INVARIANT StatusLineWellFormed
INVARIANT CloseExactlyOnceOnceBegun
INVARIANT FaultFreeCompletes
