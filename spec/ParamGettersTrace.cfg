INIT TInit
NEXT TNext
INVARIANT Sound
