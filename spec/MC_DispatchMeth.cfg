INIT XInit
NEXT XNextRoutes
CONSTANTS
  Templates <- OneTemplate
  ResKinds <- AllResKinds
  SinkPats <- MCSinkPats
  StaticPrefixes <- MCStaticPrefixes
  Methods <- AllMethods
  Paths <- FewPaths
  MaxCalls = 1
  NewestFirst = TRUE
  RoutesFirst = TRUE
INVARIANT InvRouteMasksFallbacks
INVARIANT InvLifo
INVARIANT InvAllowExact
INVARIANT InvSuffixIsolation
INVARIANT InvKwargsAreFields
INVARIANT InvMetaRefused
INVARIANT InvConflictFree
