----------------------------- MODULE UriTrace -----------------------------
(* Trace judge for C10 (code -> spec).  Reads a JSON list of traces; a trace is
   [ev |-> <<event, ...>>], an event is one call of a public function of falcon.uri
   recorded at its return:
     [fn, s, plus, out, out2, port, err, alt, alt0, back, backp]
       s     input text (code points)        out   returned text (code points; parse_host: host)
       plus  decode's unquote_plus           out2  check-escaped encoders: fn(out); else <<>>
       port  parse_host: port, -1 for "the default was returned"
       err   TRUE iff the call raised (out is then <<>>)
       alt   parse_host: the host returned for s followed by ":8042" (<<-1>> if that call raised); else <<>>
       back, backp  encode / encode_value: what the code's own decode() makes of the encoder's output, without
             and (values only; for encode backp = back) with plus translation; <<-1>> if decode raised; else <<>>
       alt0  parse_host: the host returned for s followed by ":" (an empty port), likewise
   Total: every event is consumed; the first failing clause is recorded.
     P:total       the call raised
     P:decode      decode(s) is not the reference reading
     P:alphabet    an encoder produced something outside allowed characters + upper-case %XX
     P:roundtrip   decoding the encoder's output (reference decoder) does not give the input back
     P:decode_encode  the code's decode() of the code's (correct) encoding is not the input (both ends in the code)
     P:ce_fixpoint an already fully escaped input was changed
     P:ce_alphabet a check-escaped encoder's output is not fully escaped
     P:ce_idem     applying a check-escaped encoder twice differs from once
     P:host P:port parse_host of a valid authority
     P:host_port   the host returned for a valid authority without port differs from the one returned for the
                   same authority followed by ":8042" or by ":" alone (event fields alt, alt0)
     D:encode_exact / D:ce_exact / D:host / D:port   output differs from the modelled one where the
                   property does not pin it down (over-escaping; mixed input; unvalidated IP literal)
   Long inputs (UriLong): the call is recorded with the input spelled as a dictionary of short chunks and
   the sequence of dictionary indices, [fn |-> "decode_long", plus, dict, seq, out, err] and
   [fn |-> "encode_long", f (the encoder's name), dict, seq, out, out2, back, backp, err]; the spec
   functions are evaluated on the chunks and put together by the laws DecodeChunkLaw / EncodeConcat.
     H:chunk       a chunk that is followed by another one cuts an escape or a character (harness error)
     P:decode_split  decode of a long input yields MORE code points than the reference reading (a character
                   whose escapes the implementation processed in two parts came out as replacement characters)
     P:decode_long decode of a long input differs from the reference reading otherwise
     (encode_long uses the clauses of the short encoders: P:alphabet P:roundtrip P:decode_encode the P:ce_ ones, the D: ones)
     H:input       the harness recorded a parse_host call for something that is no authority *)
EXTENDS UriLong, UriHosts, Json, IOUtils

Traces == JsonDeserialize(IOEnv.TRACE_FILE)

VARIABLES tid, l, verdict
tvars == <<tid, l, verdict>>

T  == Traces[tid]
Ev == T.ev[l]

TInit == tid \in 1..Len(Traces) /\ l = 1 /\ verdict = "ok"

JudgeEnc(e, allowed) ==
    LET x == Encode(e.s, allowed) IN
    IF e.out = x THEN (IF e.back # e.s \/ e.backp # e.s THEN "P:decode_encode" ELSE "ok")
    ELSE IF ~StrictEscaped(e.out, allowed) THEN "P:alphabet"
    ELSE IF Decode(e.out, FALSE) # e.s THEN "P:roundtrip"
    ELSE "D:encode_exact"

JudgeCE(e, allowed) ==
    IF FullyEscaped(e.s, allowed) /\ e.out # e.s THEN "P:ce_fixpoint"
    ELSE IF ~FullyEscaped(e.out, allowed) THEN "P:ce_alphabet"
    ELSE IF e.out2 # e.out THEN "P:ce_idem"
    ELSE IF e.out # EncodeCE(e.s, allowed) THEN "D:ce_exact"
    ELSE "ok"

JudgeHost(e) ==
    IF ~AuthorityShape(e.s) THEN "H:input"
    ELSE LET r == ParseHost(e.s)
             v == ValidHostForm(e.s)
         IN  IF e.out # r.host THEN (IF v THEN "P:host" ELSE "D:host")
             ELSE IF e.port # r.port THEN (IF v THEN "P:port" ELSE "D:port")
             ELSE IF v /\ ~HasColon(e.s) /\ e.alt # e.out THEN "P:host_port"
             ELSE IF v /\ ~HasColon(e.s) /\ e.alt0 # e.out THEN "P:host_port"
             ELSE "ok"

(* ---- long inputs, decided from the chunk readings ---- *)
JudgeDecodeLong(e) ==
    LET ok == ChunkOKAll(e.dict, e.plus, 1)
        x  == DecodeLong(e.dict, e.seq, e.plus)
    IN  IF ~ChunksJoin(ok, e.seq) THEN "H:chunk"
        ELSE IF e.out = x THEN "ok"
        ELSE IF Len(e.out) > Len(x) THEN "P:decode_split"
        ELSE "P:decode_long"

JudgeEncodeLong(e) ==
    LET allowed == IF e.f \in {"encode", "encode_check_escaped"} THEN UriAllowed ELSE ValueAllowed
        ce == e.f \in {"encode_check_escaped", "encode_value_check_escaped"}
        S  == TextOf(e.dict, e.seq)                    \* the input
        x  == EncodeLong(e.dict, e.seq, allowed)       \* EncodeConcat
        fe == /\ ChunksJoin(ClosedAll(e.dict, 1), e.seq)                    \* CheckEscapedConcat
              /\ \A j \in 1..Len(e.seq) : FullyEscaped(e.dict[e.seq[j]], allowed)
    IN  IF ce THEN
            (IF ~ChunksJoin(ClosedAll(e.dict, 1), e.seq) THEN "H:chunk"
             ELSE IF fe /\ e.out # S THEN "P:ce_fixpoint"
             ELSE IF ~FullyEscaped(e.out, allowed) THEN "P:ce_alphabet"
             ELSE IF e.out2 # e.out THEN "P:ce_idem"
             ELSE IF ~fe /\ e.out # x THEN "D:ce_exact"
             ELSE "ok")
        ELSE
            (IF e.out = x THEN (IF e.back # S \/ e.backp # S THEN "P:decode_encode" ELSE "ok")
             ELSE IF ~StrictEscaped(e.out, allowed) THEN "P:alphabet"
             ELSE IF Decode(e.out, FALSE) # S THEN "P:roundtrip"       \* (the long output read directly: failing cases only)
             ELSE "D:encode_exact")

Judge(e) ==
    IF e.err THEN "P:total"
    ELSE CASE e.fn = "decode" -> (IF e.out = Decode(e.s, e.plus) THEN "ok" ELSE "P:decode")
           [] e.fn = "encode" -> JudgeEnc(e, UriAllowed)
           [] e.fn = "encode_value" -> JudgeEnc(e, ValueAllowed)
           [] e.fn = "encode_check_escaped" -> JudgeCE(e, UriAllowed)
           [] e.fn = "encode_value_check_escaped" -> JudgeCE(e, ValueAllowed)
           [] e.fn = "parse_host" -> JudgeHost(e)
           [] e.fn = "decode_long" -> JudgeDecodeLong(e)
           [] e.fn = "encode_long" -> JudgeEncodeLong(e)
           [] OTHER -> "H:fn"

Step == /\ l >= 1 /\ l <= Len(T.ev) /\ verdict = "ok"
        /\ verdict' = Judge(Ev)
        /\ l' = l + 1 /\ UNCHANGED tid

Done == /\ l >= 1 /\ (l > Len(T.ev) \/ verdict # "ok")
        /\ PrintT(<<"VERDICT", tid, verdict, l - 1>>)
        /\ l' = -1 /\ UNCHANGED <<tid, verdict>>

TNext == Step \/ Done
Sound == l >= -1
===========================================================================
