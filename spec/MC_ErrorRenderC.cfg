INIT Init
NEXT MCNext
CONSTANTS
  Accepts <- MCClassAccepts
  ExtraHandlers <- MCClassExtra
  Errors <- MCClassErrors
INVARIANT OwnStatusAndVary
INVARIANT OwnHeadersSent
INVARIANT ToDictHonoured
INVARIANT JsonByDefault
INVARIANT KindConsistent
INVARIANT ClientPreferenceHonoured
INVARIANT NothingAcceptableNoBody
INVARIANT Emit
