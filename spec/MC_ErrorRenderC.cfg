INIT Init
NEXT MCNext
CONSTANTS
  Accepts <- MCClassAccepts
  ExtraHandlers <- MCClassExtra
  WrongRender <- MCWrongRender
  Errors <- MCClassErrors
INVARIANT OwnStatusAndVary
INVARIANT OwnHeadersSent
INVARIANT ToDictHonoured
INVARIANT JsonByDefault
INVARIANT KindConsistent
INVARIANT ClientPreferenceHonoured
INVARIANT NothingAcceptableNoBody
INVARIANT SpellingIrrelevant
INVARIANT Emit
