---------------------------- MODULE MC_MediaCache ----------------------------
(* Bounded instance of MediaCache: named actions, history variable for leg A, and the document /
   form shapes the round-trip legs instantiate (scalar categories are filled in by the harness). *)
EXTENDS MediaCache, Json, FiniteSets
VARIABLE h
CONSTANT Depth

(* "json_params": application/json with a charset / other parameter the harness rotates through;
   "subjson": a JSONHandler subclass (no ASGI fast path), with and without such parameters *)
MCCTypes == {"json", "json_charset", "json_params", "subjson", "vnd_json", "custom", "form", "form_charset", "text", "none"}
MCHandlerOf == [c \in MCCTypes |-> CASE c \in {"json", "json_charset", "json_params", "subjson", "vnd_json", "custom", "none"} -> "json"
                                     [] c \in {"form", "form_charset"} -> "form"
                                     [] OTHER -> "none"]
MCBodyKinds == {"empty", "valid", "truncated", "badenc", "hookfail", "blank", "padded"}
(* PEP 3333 needs CONTENT_LENGTH to bound wsgi.input (wsgi.input_terminated is out of scope) *)
(* "absent" / "blank": no Content-Length header at all / a blank one; such a request has no body (MediaCache!Init) *)
MCFramings == [s \in {"wsgi", "asgi"} |-> IF s = "wsgi" THEN {"length", "absent", "blank"} ELSE {"length", "chunked", "absent", "blank"}]
MCContexts == {"plain", "except", "exceptself", "mw", "errh"}
PlainOnly  == {"plain"}

Keep == UNCHANGED h
Log  == h' = Append(h, last')
XGetMedia        == GetMedia /\ Keep
XGetMediaDefault == GetMediaDefault /\ Keep
XMediaProperty   == MediaProperty /\ Keep
XNext == XGetMedia \/ XGetMediaDefault \/ XMediaProperty
AGetMedia        == Len(h) < Depth /\ GetMedia /\ Log
AGetMediaDefault == Len(h) < Depth /\ GetMediaDefault /\ Log
AMediaProperty   == Len(h) < Depth /\ MediaProperty /\ Log
ANext == AGetMedia \/ AGetMediaDefault \/ AMediaProperty
(* ---- instance P: access contexts (who looks at the media, and while what is being handled) -------------
   A request passes a middleware (process_request probes the media and swallows what it raises), the
   responder (plain accesses; accesses inside an except block handling an unrelated exception; accesses
   inside the except block that handles the media error the previous access raised) and, when the
   responder's last access raised, an error handler that looks at the media again before the error is
   rendered.  The order of sites is the order of a request's life. *)
PCTypes    == {"json", "vnd_json", "subjson", "custom", "form", "text"}
PBodyKinds == {"empty", "truncated", "badenc", "blank", "hookfail", "valid"}
Rank(cx) == CASE cx = "mw" -> 0 [] cx = "errh" -> 2 [] OTHER -> 1
SiteOK(cx) ==
    LET n == Len(h) IN
    /\ (n > 0 => Rank(h[n].cx) <= Rank(cx))
    /\ (cx = "errh" => n > 0 /\ (h[n].cx = "errh" \/ (Rank(h[n].cx) = 1 /\ h[n].out = "err")))
    /\ (n > 0 /\ h[n].cx = "errh" => cx = "errh")
    /\ (cx = "exceptself" => n > 0 /\ Rank(h[n].cx) = 1 /\ h[n].out = "err")
PAt(cx) == /\ cx \in Contexts /\ SiteOK(cx)
           /\ (Access("get", FALSE, cx) \/ Access("get", TRUE, cx) \/ Access("media", FALSE, cx)) /\ Log
PMiddleware   == Len(h) < Depth /\ PAt("mw")
PResponder    == Len(h) < Depth /\ PAt("plain")
PInExcept     == Len(h) < Depth /\ PAt("except")
PInExceptSelf == Len(h) < Depth /\ PAt("exceptself")
PErrorHandler == Len(h) < Depth /\ PAt("errh")
PNext == PMiddleware \/ PResponder \/ PInExcept \/ PInExceptSelf \/ PErrorHandler
(* a behaviour is complete when it has Depth accesses or cannot be continued within the request's life *)
MCInit == Init /\ h = <<>>
MCNeverReparsed == [][cache.k # "unset" => (cache' = cache /\ parses' = parses /\ consumed' = consumed /\ ~last'.touched)]_<<vars, h>>
MCErrorIsStable == [][(firstp # NoProj) => firstp' = firstp]_<<vars, h>>
Emit == (Len(h) = Depth) => PrintT(ToJson([stack |-> stack, framing |-> framing, ctype |-> ctype, handler |-> Handler, body |-> body, ev |-> h]))

(* ---- document shapes (JSON): [k: "s" scalar of category c | "l" list | "o" object, c, items] ---- *)
S(c)     == [k |-> "s", c |-> c, items |-> <<>>]
Node(k, items) == [k |-> k, c |-> 0, items |-> items]
Cats     == 0..9
D0       == {S(c) : c \in Cats}
SeqsLe(X, n) == UNION {[1..m -> X] : m \in 0..n}
D1       == {Node(k, it) : k \in {"l", "o"}, it \in SeqsLe(D0, 2)}
D1small  == {Node(k, it) : k \in {"l", "o"}, it \in SeqsLe({S(3), S(6)}, 2)}
D2       == {Node(k, it) : k \in {"l", "o"}, it \in (SeqsLe(D1small \cup {S(7), S(4)}, 2) \ {<<>>})}
(* ---- form shapes: a sequence of values, each a string category or a list of 2 categories ---- *)
FCats    == 0..4
FVals    == {S(c) : c \in FCats} \cup {Node("l", <<S(a), S(b)>>) : a, b \in {0, 1, 3}}
Forms    == SeqsLe(FVals, 2)
(* top-level scalars and empty containers: the harness instantiates these with EVERY pool value and
   sends them as bodies of their own (null, false, 0, "", [], {} are the falsy documents) *)
Tops     == D0 \cup {Node("l", <<>>), Node("o", <<>>)}
ASSUME PrintT(ToJson([docs |-> D0 \cup D1 \cup D2]))
ASSUME PrintT(ToJson([tops |-> Tops]))
ASSUME PrintT(ToJson([forms |-> Forms]))
==============================================================================
