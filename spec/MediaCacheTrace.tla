-------------------------- MODULE MediaCacheTrace --------------------------
(* Trace judge for C12.  A trace is one real request:
     [stack, framing, handler: "json"|"form"|"none", body: "empty"|"valid"|"truncated"|"badenc"|"hookfail"|"blank"|"padded"|"cut", wire, ev]
   body is classified by the trusted decoders (json.loads / bytes.decode); "cut" is a truncated
   form body, for which the handler may give a mapping or a malformed error (both runs are tried).
   ev: one event per get_media()/media access inside the responder, logged at its return:
     [op, d, cx, out: "val"|"dflt"|"err"|"exc", ek, status, same, eq, errsame, touched, nparse, psame, p]
   cx: where the access happened ("plain" | "except" | "exceptself" | "mw" | "errh");
   psame: what the application observes of the raised error - (type, title, description, __cause__ object and
   its message, to_dict()) - equals the snapshot taken when the first error was raised; p: the harness' reading of
   that observation as [type, title, desc, cause] in the vocabulary of MediaCache!ProjOf.
   wirebody: "same" / "diff" - the error document the client got is / is not the rendering of the first error
   (snapshot at the first raise); "na" when nothing propagated.
   same: the returned object IS the first returned object; eq: it equals the expected document
   (trusted decoder / the document that was serialised); touched: the body source was read during
   this access; nparse: cumulative number of calls of the handler's loads function.
   wire: status of the response when the last access' error was re-raised, else -1.
   Every event is replayed with MediaCache!Access.
     P:exc      a non-HTTP exception escaped (server error)
     P:out      value / default / error where the model says otherwise
     P:kind     a different error kind (not found / malformed / unsupported), P:status its status
     P:same     a later access returned a different object
     P:eq       the value is not the document (round trip), or not the documented empty value
     P:touch    the body stream was read again after the single parse
     P:reparse  the handler parsed more than once
     P:wire     the error reached the client with another status than 400 / 415
     P:proj     a later access raised an error an application observes differently from the first one
                (LaterAccessesObserveFirstError: type, title, description incl. the parser's message, cause)
     P:wirebody the propagated error was rendered differently from the first error
     D:projkind the first error is not what the handler documents (title / description / cause kind)
     P:errsame  the handler's own (non-media) exception was not re-raised as the same object
     D:errid    an equal media error but not the identical exception object                         *)
EXTENDS MediaCache, Json, IOUtils

Traces == JsonDeserialize(IOEnv.TRACE_FILE)
IdHandler == [c \in {"json", "form", "none"} |-> c]
AnyFraming == [s \in {"wsgi", "asgi"} |-> {"length", "chunked", "absent", "blank"}]

VARIABLES tid, l, verdict, dnote
tvars == <<tid, l, verdict, dnote, stack, framing, ctype, body, cache, consumed, parses, last, firstp>>
T == Traces[tid]

TInit == /\ tid \in 1..Len(Traces) /\ l = 1 /\ verdict = "ok" /\ dnote = "ok"
         /\ stack = Traces[tid].stack /\ framing = Traces[tid].framing /\ ctype = Traces[tid].handler
         /\ body \in (IF Traces[tid].body = "cut" THEN {"valid", "badenc"} ELSE {Traces[tid].body})
         /\ cache = Unset /\ consumed = FALSE /\ parses = 0
         /\ last = InitRec /\ firstp = NoProj

JudgeP(e, x, np, firstParse) ==
    IF e.out = "exc" THEN "P:exc"
    ELSE IF e.out # x.out THEN "P:out"
    ELSE IF e.out = "err" /\ e.ek # x.ek THEN "P:kind"
    ELSE IF e.out = "err" /\ e.status # x.status THEN "P:status"
    ELSE IF e.out = "val" /\ ~e.same THEN "P:same"
    ELSE IF e.out = "val" /\ T.body # "cut" /\ ~e.eq THEN "P:eq"
    ELSE IF e.touched /\ ~firstParse THEN "P:touch"
    ELSE IF e.nparse > np THEN "P:reparse"
    ELSE IF e.out = "err" /\ x.ek = "custom" /\ ~e.errsame THEN "P:errsame"
    ELSE IF e.out = "err" /\ x.ek # "unsupported" /\ ~e.psame THEN "P:proj"
    ELSE "ok"

JudgeD(e, x) == IF e.out = "err" /\ x.ek \notin {"unsupported", "custom"} /\ ~e.errsame THEN "D:errid"
                ELSE IF e.out = "err" /\ x.ek \in {"notfound", "malformed"} /\ e.p # x.p THEN "D:projkind" ELSE "ok"

Step ==
    /\ l >= 1 /\ l <= Len(T.ev) /\ verdict = "ok"
    /\ LET e == T.ev[l] IN
         /\ Access(e.op, e.d, e.cx)
         /\ verdict' = JudgeP(e, last', parses', parses' # parses)
         /\ dnote' = IF dnote # "ok" THEN dnote
                     ELSE LET d == JudgeD(e, last') IN IF d = "ok" THEN "ok" ELSE d \o "#" \o ToString(l)
    /\ l' = l + 1 /\ UNCHANGED tid

Wire == IF T.wire = -1 \/ verdict # "ok" THEN verdict
        ELSE IF last.out = "err" /\ T.wire # last.status THEN "P:wire"
        ELSE IF last.out = "err" /\ last.ek \in {"notfound", "malformed"} /\ T.wirebody = "diff" THEN "P:wirebody" ELSE verdict

Done ==
    /\ l >= 1 /\ (l > Len(T.ev) \/ verdict # "ok")
    /\ PrintT(<<"VERDICT", tid, IF Wire = "ok" THEN dnote ELSE Wire, l - 1>>)
    /\ l' = -1 /\ UNCHANGED <<tid, verdict, dnote, stack, framing, ctype, body, cache, consumed, parses, last, firstp>>

TNext == Step \/ Done
TSpec == TInit /\ [][TNext]_tvars
Sound == AtMostOneParse /\ DefaultNotCached /\ SameObjectOrSameError /\ LaterAccessesObserveFirstError
============================================================================
