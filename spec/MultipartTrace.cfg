INIT JInit
NEXT JNext
CONSTANTS
  CharsetClass <- JCharsetClass
  DelimWithCRLF = TRUE
  PartPool = {}
  EnvPool = {}
  LimitsOf <- NoLimits
  MaxParts = 0
  Sizes = {}
  RDelims = {}
  MaxOps = 1000000
  MaxRetry = 0
INVARIANT Sound
