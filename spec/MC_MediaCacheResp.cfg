INIT MCInit
NEXT XNext
CONSTANTS
  MaxVersions = 4
  SetterInvalidates = TRUE
  Depth = 0
INVARIANT RenderingIsFresh
INVARIANT SentIsLastAssigned
INVARIANT RenderedWhatWouldBeSent
