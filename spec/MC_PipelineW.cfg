INIT Init
NEXT MCNext
CONSTANTS
  Stacks <- StackFull2
  Indeps <- Both
  Targets <- AllTargets
  MaxHooks = 0
  InitRegs <- WRegs
  RegClasses <- None
  RegBehs <- None
  MaxRegs = 0
  RaiseClasses <- WRaise
  RenderClasses <- C3Render
  Mro <- MCMro
  StatusOf <- MCStatus
  OwnVary <- MCOwnVary
  MaxReqs = 1
  WrongDesign <- MCWrong
  SameObj = TRUE
  MaxFaults = 1
INVARIANT TypeOK
INVARIANT ReqTopDown
INVARIANT ResourceMwOnlyIfRouted
INVARIANT ResponderOnlyIfClean
INVARIANT ResponseBottomUp
INVARIANT ResponseOnce
INVARIANT SucceededIffNoRaise
INVARIANT MostSpecificWins
INVARIANT LatestRegistrationWins
INVARIANT HandlerFollowsRaise
INVARIANT EveryRaiseHandled
INVARIANT StaleBodyDiscarded
INVARIANT NeverEscapesByDefault
INVARIANT HandlerRaisedErrorIsRendered
INVARIANT DefaultRendering
