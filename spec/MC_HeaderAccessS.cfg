INIT MInit
NEXT SNext
CONSTANTS
  Bounds <- BoundsQ
  ReqSet <- ReqsFull
  ReadAttrs <- Attrs
  Depth = 7
  SharedUriSlot = FALSE
INVARIANT MemoSound
INVARIANT EmitS
