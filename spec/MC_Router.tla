---------------------------- MODULE MC_Router ----------------------------
(* Bounded instances of Router.  The instance's universe (template segments, path-segment
   representatives, the trusted converter table, invalid field names) is written by the harness
   (checks/c01.py) as JSON and read here, because the converter table must come from CPython:
        IOEnv.ROUTER_UNIVERSE = file with [ts, ps, conv, bad, mconv]
   X*  exhaustive instance (no history; VIEW drops `last`)        -> leg M
   EmitTable  on the same instance: the decision table of every state        -> leg A (decision table)
   A*  add/find histories with a history variable `h`             -> leg A (-simulate)        *)
EXTENDS RouterUniverse, Router, Randomization, FiniteSets
CONSTANTS MaxDepth, MaxPathLen, Depth
VARIABLE h

MCTS  == UTS
MCBad == UBad
MCCT  == UCT
(* a template is what is left after the router stripped the leading slashes: no leading empty segment *)
MCTemplates == {tp \in UNION {[1..d -> 1..Len(U.ts)] : d \in 1..MaxDepth} : Len(tp) = 1 \/ U.ts[tp[1]].items # <<>>}
MCPaths     == UNION {[1..d -> Range(U.ps)] : d \in 1..MaxPathLen}

ASSUME \A i, j \in DOMAIN MCTS : MCTS[i] = MCTS[j] => i = j

Keep == UNCHANGED h
Log  == h' = Append(h, last')

(* ---- exhaustive instance ----
   The view drops `last`, so for a rejected add the compile flag cannot matter (a rejection leaves
   `finder` alone) and is fixed; invalid templates are told apart beforehand (constant level). *)
XInit == Init /\ h = <<>>
XView == <<accepted, tree, finder, nadds>>
ValidT   == {tp \in MCTemplates : ~Invalid(tp)}
InvalidT == MCTemplates \ ValidT
XAccept            == (\E tp \in ValidT, c \in BOOLEAN : AddAccept(tp, c)) /\ Keep
XRejectInvalid     == (\E tp \in InvalidT : AddRejectInvalid(tp, FALSE)) /\ Keep
XRejectConflict    == (\E tp \in ValidT : AddRejectConflict(tp, FALSE)) /\ Keep
XRejectPathNotLast == (\E tp \in ValidT : AddRejectPathNotLast(tp, FALSE)) /\ Keep
(* a lookup changes the state only by generating the program (Find = Compile + the answer in `last`, which
   the view drops); stated without Lookup, which TLC's -coverage cost model cannot digest (out of memory) *)
XFind              == Compile /\ UNCHANGED <<accepted, tree, nadds, last>> /\ Keep
XNext == XAccept \/ XRejectInvalid \/ XRejectConflict \/ XRejectPathNotLast \/ XFind
(* these two depend on `accepted` only (given FindIsIdealDFS); every value of `accepted` is reached by a
   history without rejected adds and without compile flags, so they are evaluated there *)
Canonical == finder.lazy /\ nadds = Len(accepted)
(* constant level: every multi-field segment of the instance against every representative (line feeds included):
   a split is what SplitSound says it is (`nadds >= 0` only makes it a state predicate for TLC).  MC_RouterBadLF.cfg sets LFBlind (fields take line feeds): must fail. *)
MCTrue == TRUE
XSplitSound == nadds >= 0 => \A i \in {j \in DOMAIN MCTS : KindOf[j] = "cx"} : \A s \in Range(U.ps) : SplitSound(MCTS[i], s)
XWalkIsBestMatch == Canonical => WalkIsBestMatch
XNoLeak          == Canonical => NoLeak

(* ---- decision table (leg A): every canonical state with the outcome of every possible next add
   and its complete lookup table (the paths that are not listed miss) ---- *)
Hits  == LET ft == FinderTree IN
         {x \in {Rec("find", <<>>, 0, FALSE, p, "hit", Lookup(ft, p)) : p \in Paths} : x.found}
Outs  == {[t |-> tp, out |-> Outcome(tree, tp)] : tp \in Templates}
(* the paths on which the converter of a trailing multi-segment field of some accepted route vetoes after everything
   above it matched (the walk has to go on elsewhere); how many of them are hits of another route *)
Vetoed == LET routes == {n \in Routes(accepted) : Last(n) \in PathSegs} IN
          {p \in Paths : LET q == Norm(p) IN \E n \in routes :
               /\ Len(q) >= Len(n) /\ \A i \in 1..(Len(n) - 1) : MatchAt(n[i], q[i]).ok
               /\ ConvertRest(Seg(Last(n)).items[1].c, SubSeq(q, Len(n), Len(q))) = None}
EmitTable == Canonical => LET ft == FinderTree  v == Vetoed IN
             PrintT(ToJson([acc |-> accepted, outs |-> Outs, hits |-> Hits, nveto |-> Cardinality(v),
                            nvetohit |-> Cardinality({p \in v : Lookup(ft, p).found})]))

(* ---- history instance for -simulate (leg A): add/find histories of a larger universe.  Every step
   offers a few randomly drawn candidates instead of the whole (large) sets: templates that extend an
   existing node or are drawn from Templates; paths instantiated from an accepted template with
   matching representatives and then perturbed, or drawn from Paths. ---- *)
PSet   == Range(U.ps)
SegIds == DOMAIN MCTS
RepsOf == [i \in SegIds |-> IF i \in PathSegs THEN PSet ELSE {s \in PSet : Match(MCTS[i], s).ok}]
Guided(tp) == [i \in 1..Len(tp) |-> IF RepsOf[tp[i]] = {} THEN RandomElement(PSet) ELSE RandomElement(RepsOf[tp[i]])]
SomeTemplates ==
    RandomSubset(2, Templates)
    \cup {Append(n, RandomElement(SegIds)) : n \in {m \in RandomSubset(3, DOMAIN tree) : Len(m) < MaxDepth /\ Append(m, 1) \in Templates}}
SomePaths ==
    IF accepted = <<>> THEN RandomSubset(2, Paths)
    ELSE LET g == Guided(accepted[RandomElement(DOMAIN accepted)].t) IN
         {g, [g EXCEPT ![RandomElement(DOMAIN g)] = RandomElement(PSet)]}
         \cup (IF Len(g) < MaxPathLen THEN {Append(g, RandomElement(PSet))} ELSE {})
         \cup RandomSubset(1, Paths)
AAccept            == (\E tp \in SomeTemplates, c \in BOOLEAN : AddAccept(tp, c)) /\ Log
ARejectInvalid     == (\E tp \in SomeTemplates, c \in BOOLEAN : AddRejectInvalid(tp, c)) /\ Log
ARejectConflict    == (\E tp \in SomeTemplates, c \in BOOLEAN : AddRejectConflict(tp, c)) /\ Log
ARejectPathNotLast == (\E tp \in SomeTemplates, c \in BOOLEAN : AddRejectPathNotLast(tp, c)) /\ Log
AFind              == (\E p \in SomePaths : Find(p)) /\ Log
ANext == AAccept \/ ARejectInvalid \/ ARejectConflict \/ ARejectPathNotLast \/ AFind
Emit == (Len(h) = Depth) => PrintT(ToJson([h |-> h]))
==========================================================================
