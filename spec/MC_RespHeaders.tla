-------------------------- MODULE MC_RespHeaders --------------------------
(* Bounded instances of RespHeaders.  Every top-level disjunct of the next-state relations is a
   named operator so that TLC's coverage shows which calls fired.
     X...  exhaustive instance (MC_RespHeaders.cfg and the wrong-design configs): h only counts steps
     A...  behaviour export (MC_RespHeadersSim.cfg): h is the history, Emit prints it as JSON
   MC_RespHeadersEnc.cfg enumerates the decision table of the encoding law (EncInit). *)
EXTENDS RespHeaders, Json
VARIABLE h
CONSTANTS Depth, Bases, Casings, Vals, DefaultMedia,
          Randomized     \* behaviour export only: draw each call's arguments at random instead of branching on them

Names   == [b : Bases \cup {SCName}, c : Casings]
NoName  == [b |-> "", c |-> 0]
Item(b, c, v) == [n |-> [b |-> b, c |-> c], v |-> v]

(* ---- pools -------------------------------------------------------------------------------- *)
Bulks == { <<Item("x-a", 0, "v1"), Item("x-a", 5, "v2")>>,           \* same header twice: last wins
           <<Item("x-b", 1, "v1"), Item("x-a", 4, "v2")>>,
           <<Item(SCName, 17, "v1")>> }                               \* refused

NoLink == LinkRec("", "", <<>>, <<>>, <<>>, <<>>, <<>>, <<>>)
Links == { LinkRec("/things/1", "next", <<>>, <<>>, <<>>, <<>>, <<>>, <<>>),
           LinkRec("http://example.com/a?b=c", "alternate", <<"Title 1">>, <<[lang |-> "en", text |-> "Title"]>>,
                   <<"/anchor">>, <<"text/html">>, <<"en", "de">>, <<"use-credentials">>) }
SimLinks == Links \cup { LinkRec("/x", "prev", <<>>, <<[lang |-> "", text |-> "T"]>>, <<>>, <<>>, <<"fr">>, <<"anonymous">>) }

(* typed properties: [p, a]; for the codec properties the instance states the exact text *)
T(p, a) == [p |-> p, a |-> a]
D1 == 784111777        \* Sun, 06 Nov 1994 08:49:37 GMT  (the example of RFC 9110 5.6.7)
D2 == 2114380800       \* Thu, 01 Jan 2037 00:00:00 GMT
Typeds == { T("etag", TStr("abc")), T("etag", TNone), T("location", TCodec("/a/b", 0, "/a/b")),
            T("content_type", TStr("text/plain")) }
SimTypeds == Typeds \cup {
    T("etag", TStr("\"q\"")), T("etag", TStr("W/\"w\"")),
    T("cache_control", TList(<<"no-cache", "max-age=3">>)), T("cache_control", TList(<<"public">>)), T("cache_control", TNone),
    T("vary", TList(<<"Accept", "Cookie">>)), T("vary", TList(<<"*">>)),
    T("content_length", TInt(42)), T("content_length", TStr("7")), T("content_length", TNone),
    T("retry_after", TInt(120)), T("retry_after", TNone),
    T("content_range", TRange(0, 9, "100", "")), T("content_range", TRange(5, 5, "*", "")), T("content_range", TRange(1, 2, "3", "items")),
    T("content_type", TStr("application/xml")), T("content_type", TNone),
    T("accept_ranges", TStr("bytes")), T("accept_ranges", TStr("none")),
    T("location", TCodec("/a b", 0, "/a%20b")), T("location", TCodec("/p?q=1&r=%", 0, "/p?q=1&r=%25")), T("location", TNone),
    T("content_location", TCodec("/c/d", 0, "/c/d")), T("content_location", TNone),
    T("downloadable_as", TCodec("report.pdf", 0, DispSafe("downloadable_as", "report.pdf"))),
    T("viewable_as", TCodec("pic 1.png", 0, DispSafe("viewable_as", "pic 1.png"))),
    T("downloadable_as", TNone),
    T("expires", TCodec("", D1, "Sun, 06 Nov 1994 08:49:37 GMT")), T("expires", TNone),
    T("last_modified", TCodec("", D2, "Thu, 01 Jan 2037 00:00:00 GMT")) }

(* cookies *)
MA(kind, num, frac) == [kind |-> kind, num |-> num, frac |-> frac]
NoMA == MA("none", 0, 0)
SS(b, c) == [b |-> b, c |-> c]
CA(value, exp, expkind, off, ma, domain, path, secure, httponly, ss, partitioned) ==
    [value |-> value, exp |-> exp, expkind |-> expkind, off |-> off, ma |-> ma, domain |-> domain, path |-> path,
     secure |-> secure, httponly |-> httponly, ss |-> ss, partitioned |-> partitioned]
NoCA == CA("", -1, "", 0, NoMA, "", "", "none", TRUE, SS("", 0), FALSE)
UA(samesite, domain, path) == [samesite |-> samesite, domain |-> domain, path |-> path]
NoUA == UA("", "", "")
CookieNames == {"sid", "SID"}
(* a covering selection: every attribute appears set and unset, secure in its three states *)
CookieArgs == { CA("v1", -1, "", 0, NoMA, "", "", "none", TRUE, SS("", 0), FALSE),
                CA("v2", D2, "naive", 0, MA("int", 100, 0), "example.com", "/p", "true", FALSE, SS("lax", 0), TRUE),
                CA("v3", -1, "", 0, NoMA, "", "", "false", FALSE, SS("", 0), FALSE) }
SimCookieNames == {"sid", "SID", "a.b"}
SimCookieArgs == CookieArgs \cup {
                CA("a b", D1, "aware", 120, MA("float", 100, 9), "", "/", "none", TRUE, SS("strict", 63), FALSE),
                CA("x;y,z\"q\\", D2, "aware", -330, MA("str", 37, 0), "sub.example.com", "", "false", TRUE, SS("none", 5), TRUE),
                CA("v=4", -1, "", 0, MA("float", 0, 5), "", "", "true", TRUE, SS("lax", 2), FALSE),
                CA("", -1, "", 0, NoMA, "", "", "none", TRUE, SS("", 0), FALSE),
                CA("v5", -1, "", 0, MA("int", 0, 0), "", "", "none", TRUE, SS("", 0), FALSE) }
UnsetArgs == { UA("Lax", "", ""), UA("Strict", "example.com", "/p") }

Call(op, n, v, items, asdict, ty, link, text, ck, ca, ua) ==
    [op |-> op, n |-> n, v |-> v, items |-> items, asdict |-> asdict, p |-> ty.p, a |-> ty.a, link |-> link,
     text |-> text, ck |-> ck, ca |-> ca, ua |-> ua, flag |-> FALSE]
NoT == T("", TNone)
C0(op)            == Call(op, NoName, "", <<>>, FALSE, NoT, NoLink, "", "", NoCA, NoUA)
CO(b)             == [C0("set_option") EXCEPT !.flag = b]
CN(op, n, v)      == Call(op, n, v, <<>>, FALSE, NoT, NoLink, "", "", NoCA, NoUA)
CB(items, asdict) == Call("set_headers", NoName, "", items, asdict, NoT, NoLink, "", "", NoCA, NoUA)
CT(op, ty)        == Call(op, NoName, "", <<>>, FALSE, ty, NoLink, "", "", NoCA, NoUA)
CL(l)             == Call("link", NoName, "", <<>>, FALSE, NoT, l, LinkSafe(l), "", NoCA, NoUA)
CC(k, a)          == Call("set_cookie", NoName, "", <<>>, FALSE, NoT, NoLink, "", k, a, NoUA)
CU(k, u)          == Call("unset_cookie", NoName, "", <<>>, FALSE, NoT, NoLink, "", k, NoCA, u)

AllBases == Bases \cup {TypedHeader[p] : p \in TypedProps} \cup {"link", "x-a", "x-b"}
MapView(m) == [b \in AllBases |-> Look(m, b)]
EmitView(m) == [b \in AllBases \cup {"content-type", "content-length"} |-> Look(WithFramework(m, DefaultMedia), b)]
JarView(j) == {[name |-> k, c |-> j[k], w |-> written[k]] : k \in DOMAIN j}      \* c: held (model of the code), w: asked

(* ---- exhaustive instance -------------------------------------------------------------------- *)
Tick == Len(h) < Depth /\ h' = Append(h, 0)
XInit == Init /\ h = <<>>
XGet        == (\E n \in Names : GetHeader(n)) /\ Tick
XSet        == (\E n \in Names, v \in Vals : SetHeader(n, v)) /\ Tick
XDelete     == (\E n \in Names : DeleteHeader(n)) /\ Tick
XAppend     == (\E n \in Names, v \in Vals : AppendHeader(n, v)) /\ Tick
XSetHeaders == (\E items \in Bulks : SetHeaders(items)) /\ Tick
XSetTyped   == (\E t \in Typeds : SetTyped(t.p, t.a)) /\ Tick
XGetTyped   == (\E t \in Typeds : GetTyped(t.p)) /\ Tick
XAppendLink == (\E l \in Links : AppendLink(LinkSafe(l))) /\ Tick
XSetCookie  == (\E k \in CookieNames, a \in CookieArgs : SetCookie(k, a)) /\ Tick
XUnsetCookie == (\E k \in CookieNames, u \in UnsetArgs : UnsetCookie(k, u)) /\ Tick
XEmitWsgi   == EmitWsgi /\ Tick
XEmitAsgi   == EmitAsgi /\ Tick
XSetOption  == (\E b \in BOOLEAN : SetSecureDefault(b)) /\ Tick
XNext == XGet \/ XSet \/ XDelete \/ XAppend \/ XSetHeaders \/ XSetTyped \/ XGetTyped \/ XAppendLink
         \/ XSetCookie \/ XUnsetCookie \/ XEmitWsgi \/ XEmitAsgi \/ XSetOption
XReadBackIsMap == ReadBackIsMap(Names)
XSetCookieUntouched == [][(last'.sc /\ last'.op \in {"get", "set", "delete", "set_headers"}) => UNCHANGED stores]_<<vars, h>>

(* ---- behaviour export ------------------------------------------------------------------------ *)
Log(call) == Len(h) < Depth /\ h' = Append(h, [call |-> call, err |-> last'.err, res |-> last'.res, map |-> MapView(model')])
AInit == Init /\ sd = TRUE /\ h = <<>>       \* falcon's default; ASetOption changes it
(* the filter mentions h so that the draw is a state-level expression: TLC evaluates constant-level
   expressions once, which would freeze every draw for the whole run *)
Pick(S) == IF Randomized THEN {RandomElement({x \in S : Len(h) >= 0})} ELSE S
AGet        == \E n \in Pick(Names) : GetHeader(n) /\ Log(CN("get", n, ""))
ASet        == \E n \in Pick(Names), v \in Pick(Vals) : SetHeader(n, v) /\ Log(CN("set", n, v))
ADelete     == \E n \in Pick(Names) : DeleteHeader(n) /\ Log(CN("delete", n, ""))
AAppend     == \E n \in Pick(Names), v \in Pick(Vals) : AppendHeader(n, v) /\ Log(CN("append", n, v))
ASetHeaders == \E items \in Pick(Bulks), d \in Pick(BOOLEAN) : SetHeaders(items) /\ Log(CB(items, d))
ASetTyped   == \E t \in Pick(SimTypeds) : SetTyped(t.p, t.a) /\ Log(CT("typed", t))
AGetTyped   == \E t \in Pick(SimTypeds) : GetTyped(t.p) /\ Log(CT("typed_get", T(t.p, TNone)))
AAppendLink == \E l \in Pick(SimLinks) : AppendLink(LinkSafe(l)) /\ Log(CL(l))
ASetCookie  == \E k \in Pick(SimCookieNames), a \in Pick(SimCookieArgs) : SetCookie(k, a) /\ Log(CC(k, a))
AUnsetCookie == \E k \in Pick(SimCookieNames), u \in Pick(UnsetArgs) : UnsetCookie(k, u) /\ Log(CU(k, u))
ASetOption  == \E b \in Pick(BOOLEAN) : SetSecureDefault(b) /\ Log(CO(b))
ANext == AGet \/ ASet \/ ADelete \/ AAppend \/ ASetHeaders \/ ASetTyped \/ AGetTyped \/ AAppendLink
         \/ ASetCookie \/ AUnsetCookie \/ ASetOption
(* exhaustive small-scope export (BFS, MC_RespHeadersLink.cfg): EVERY history of Depth calls that touch the Link header,
   through the plain-header calls in two casings and through append_link - e.g. append_link / set_header('Link') /
   append_link.  Each is replayed on the real objects. *)
LinkNames == [b : {"link"}, c : {0, 1}]
LInit == Init /\ sd = TRUE /\ h = <<>>
LGet        == \E n \in LinkNames : GetHeader(n) /\ Log(CN("get", n, ""))
LSet        == \E n \in LinkNames : SetHeader(n, "v1") /\ Log(CN("set", n, "v1"))
LDelete     == \E n \in LinkNames : DeleteHeader(n) /\ Log(CN("delete", n, ""))
LAppend     == \E n \in LinkNames : AppendHeader(n, "v2") /\ Log(CN("append", n, "v2"))
LAppendLink == \E l \in Links : AppendLink(LinkSafe(l)) /\ Log(CL(l))
LNext == LGet \/ LSet \/ LDelete \/ LAppend \/ LAppendLink
Emit == (Len(h) = Depth) =>
        PrintT(ToJson([sd |-> TRUE, ev |-> h, plain |-> EmitView(model), raw |-> raw, jar |-> JarView(jar)]))

(* ---- encoding law: decision table ------------------------------------------------------------- *)
(* A case is (helper, original string as code points); the law says: the emitted header is pure
   ASCII, every "%" in an emitted URI starts a %XX escape, and the RFC decoder returns the original.  Strings
   are all concatenations of at most EncLen blocks of the helper's pool.  A plain `title` is only defined for ASCII (documented: "use title_star") without
   control characters (an RFC 9110 quoted-string cannot carry them, so no encoder could satisfy the law). *)
CONSTANTS EncLen
EncPool == { <<97>>, <<34>>, <<92>>, <<32>>, <<37>>, <<37, 52, 49>>, <<47>>, <<60>>, <<62>>, <<44>>, <<59>>, <<39>>, <<43>>,
             <<233>>, <<8364>>, <<128512>>, <<13, 10>>, <<9>>, <<127>>, <<1>> }
EncHelpers == {"location", "content_location", "downloadable_as", "viewable_as", "link_target", "link_title",
               "link_title_star", "link_anchor", "link_rel"}
RECURSIVE Concat(_)
Concat(ss) == IF ss = <<>> THEN <<>> ELSE Head(ss) \o Concat(Tail(ss))
(* for the helpers that go through the "already escaped?" heuristic: "%" followed by a sign and a hex digit, by a
   single hex digit, by non-hex, next to genuine escapes - none of them is an escape (RFC 3986: "%" HEXDIG HEXDIG) *)
PctPool == { <<37, 45, 53>>, <<37, 43, 49>>, <<37, 43, 70>>, <<37, 52>>, <<37, 122, 122>>, <<37, 50, 48>> }
PctHelpers == {"location", "content_location", "link_target"}
PoolOf(hp) == IF hp \in PctHelpers THEN EncPool \cup PctPool ELSE EncPool
StringsOf(hp) == {Concat(t) : t \in UNION {[1..k -> PoolOf(hp)] : k \in 1..EncLen}}
IsAscii(s) == \A i \in 1..Len(s) : s[i] < 128
IsCtl(c) == (c < 32 /\ c # 9) \/ c = 127
Expressible(hp, s) == /\ (hp = "link_title" => (IsAscii(s) /\ \A i \in 1..Len(s) : ~IsCtl(s[i])))
                      /\ (hp \in {"location", "content_location", "link_target", "link_anchor", "link_rel", "link_title_star"}
                            => ~LooksEscaped(s))
                      /\ (hp = "link_rel" => (\A i \in 1..Len(s) : s[i] # 32))     \* one relation type
(* (enumerated with nested quantifiers: TLC walks the function sets lazily instead of building and normalising
   one big set of records; equal concatenations collapse into one state) *)
EncInit == /\ Init /\ sd = TRUE
           /\ \E hp \in EncHelpers, k \in 1..EncLen : \E t \in [1..k -> PoolOf(hp)] :
                  /\ Expressible(hp, Concat(t))
                  /\ h = [helper |-> hp, s |-> Concat(t), dec |-> Concat(t)]
EncNext == UNCHANGED <<vars, h>>
EncEmit == PrintT(ToJson(h))
(* ---- cookie-value coding: law + decision table (MC_RespHeadersCk*.cfg) --------------------------------------- *)
(* every value of at most CkLen characters over CkAlpha: the law must hold for it, and it is exported with its
   coded form so that the real set_cookie -> Cookie header -> req.cookies round trip is run on it *)
CONSTANTS CkAlpha, CkLen, CkTwoPass
CkValues == UNION {[1..k -> CkAlpha] : k \in 0..CkLen}
CkInit == /\ Init /\ sd = TRUE
          /\ \E k \in 0..CkLen : \E v \in [1..k -> CkAlpha] :
                 h = [v |-> v, refused |-> CookieRefused(v), coded |-> IF CookieRefused(v) THEN <<>> ELSE CookieEncode(v)]
CkNext == UNCHANGED <<vars, h>>
CookieRoundTrip == h.refused \/ (IF CkTwoPass THEN CookieDecodeTwoPass(h.coded) ELSE CookieDecode(h.coded)) = h.v
CkCodedIsAscii == \A i \in 1..Len(h.coded) : h.coded[i] >= 32 /\ h.coded[i] < 127 /\ h.coded[i] \notin {44, 59}
CkEmit == PrintT(ToJson(h))
============================================================================
