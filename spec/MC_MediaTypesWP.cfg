INIT Init
NEXT XNext
CONSTANTS
  Ranges <- RangesP
  MTypes <- MTypesP
  AllM <- AllMP
  MaxRanges = 2
  MaxCands = 1
  SubBeforeExact = TRUE
  Positive = TRUE
  QSplits = TRUE
INVARIANT SpecificityOrder
INVARIANT BestIsFirstMax
INVARIANT QZeroNeverChosen
INVARIANT MalformedOnlyValueError
INVARIANT AcceptsIffPositive
INVARIANT QPositionIrrelevant
