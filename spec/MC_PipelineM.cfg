INIT Init
NEXT MCNext
CONSTANTS
  Stacks <- StackFull1
  Indeps <- OnlyIndep
  Targets <- OnlyRouted
  MaxHooks = 1
  InitRegs <- NoRegs
  RegClasses <- MRegClasses
  RegBehs <- SRegBehs
  MaxRegs = 2
  RaiseClasses <- MRaise
  RenderClasses <- MRender
  Mro <- MCMro
  StatusOf <- MCStatus
  OwnVary <- MCOwnVary
  MaxReqs = 1
  WrongDesign <- MCWrong
  SameObj = FALSE
  MaxFaults = 1
INVARIANT TypeOK
INVARIANT ReqTopDown
INVARIANT ResourceMwOnlyIfRouted
INVARIANT ResponderOnlyIfClean
INVARIANT ResponseBottomUp
INVARIANT ResponseOnce
INVARIANT SucceededIffNoRaise
INVARIANT MostSpecificWins
INVARIANT SecondaryBaseHonoured
INVARIANT LatestRegistrationWins
INVARIANT HandlerFollowsRaise
INVARIANT EveryRaiseHandled
INVARIANT StaleBodyDiscarded
INVARIANT NeverEscapesByDefault
INVARIANT HandlerRaisedErrorIsRendered
INVARIANT DefaultRendering
