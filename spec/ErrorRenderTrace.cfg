INIT TInit
NEXT TNext
CONSTANTS
  Accepts <- Empty
  ExtraHandlers <- Empty
  Errors <- Empty
  WrongRender = "none"
