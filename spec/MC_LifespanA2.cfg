INIT Init
NEXT MCNext
CONSTANTS
  HandlerStacks <- LStacks2
  AddShapes <- BothShape
  MaxAdds = 2
  MaxCycles = 3
INVARIANT EmitLast
