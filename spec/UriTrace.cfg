INIT TInit
NEXT TNext
CONSTANTS
  KnownLiterals <- KnownLits
INVARIANT Sound
