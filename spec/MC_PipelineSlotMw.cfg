INIT SlotInit
NEXT SlotNext
CONSTANTS
  Stacks <- WStacks
  Indeps <- Both
  Targets <- C4Targets
  MaxHooks = 0
  InitRegs <- C3Regs
  RegClasses <- None
  RegBehs <- None
  MaxRegs = 0
  RaiseClasses <- AppAOnly
  RenderClasses <- None
  Mro <- MCMro
  StatusOf <- MCStatus
  OwnVary <- MCOwnVary
  MaxReqs = 2
  WrongDesign <- MCWrong
  SameObj = FALSE
  MaxFaults = 1
  SlotMethods <- OnlyGet
  SlotSuffixes <- OnlyUnsuffixed
  AddGroups <- WGroups
  MaxAddCalls = 2
  MaxComps = 4
INVARIANT TypeOK
INVARIANT SlotTypeOK
INVARIANT ClassHooksWrapSlot
INVARIANT ReqTopDown
INVARIANT ResourceMwOnlyIfRouted
INVARIANT ResponderOnlyIfClean
INVARIANT ResponseBottomUp
INVARIANT ResponseOnce
INVARIANT SucceededIffNoRaise
INVARIANT EmitSlot
CONSTRAINT EarlierRequestsClean
