---------------------------- MODULE MC_ServerIface ----------------------------
(* Bounded instance of ServerIface.  A client composes a request step by step (one named action
   per step, so TLC's coverage shows which steps fired); when it is sent, the design-level
   properties are checked on it and, in the exporting configurations, the request is printed
   together with its three encodings, Expressible per interface and the expected view. *)
EXTENDS ServerIface, Json

CONSTANTS Methods,        \* request methods
          MaxHeaders,     \* how many fields from the pool a request may carry (besides UA/Host/Content-Length)
          NTargets, NQueries, NPool, NBodies, NEndpoints,   \* how much of each pool is used
          Kinds,          \* responder kinds of the generated application
          NOptions,       \* how many request-option settings
          Statuses,       \* statuses a "plain" responder may set
          PlainShare,     \* 0: fixed responder scripts only; 1: "plain" responders (status x body-source combination x Content-Type) as well
          NForwarding,    \* how many shapes of forwarding chains (relative to the peer address)
          UnderscoreNames \* wrong-design switch: offer a field name containing '_' (PEP 3333 folds it onto '-')

VARIABLES r,      \* the request being composed
          stage,  \* "start" | "class" | "script" | "plain" | "target" | "query" | "headers" | "body" | "endpoint" | "forwarding" | "send" | "sent"
          app     \* the generated application the request is meant for: [opts, kind, resp]
vars == <<r, stage, app>>

MCTargets == <<
    <<47>>,                                                             \* /
    <<47, 114, 47, 97, 98, 99, 47>>,                                    \* /r/abc/
    <<47, 114, 47, 99, 97, 102, 37, 67, 51, 37, 65, 57>>,               \* /r/caf%C3%A9
    <<47, 114, 47, 99, 97, 102, 195, 169>>,                             \* /r/caf<C3><A9>         raw UTF-8
    <<47, 114, 47, 37, 69, 57, 120, 47>>,                               \* /r/%E9x/               escaped, not UTF-8
    <<47, 114, 47, 233, 120>>,                                          \* /r/<E9>x               raw, not UTF-8
    <<47, 115, 47, 37, 122, 122, 37>>,                                  \* /s/%zz%                malformed escapes
    <<47, 114, 47, 97, 37, 50, 70, 98>>,                                \* /r/a%2Fb               escaped slash
    <<47, 114, 47, 37, 70, 48, 37, 57, 70, 37, 57, 56, 37, 56, 48>>,    \* /r/%F0%9F%98%80        4-byte sequence
    <<47, 114, 47, 97, 98, 99>>,                                        \* /r/abc
    <<47, 97, 43, 98, 47, 47>>                                          \* /a+b//
>>
MCQueries == <<
    <<>>,
    <<97, 61, 49>>,                                                     \* a=1
    <<97, 61, 49, 38, 97, 61, 50, 38, 98, 61, 120, 44, 121>>,           \* a=1&a=2&b=x,y
    <<97, 61, 37, 67, 51, 37, 65, 57, 38, 99>>,                         \* a=%C3%A9&c
    <<97, 61, 44, 38, 98, 61>>,                                         \* a=,&b=
    <<113, 61, 97, 43, 98, 37, 50, 48, 99, 38, 37, 122, 122, 61, 49>>   \* q=a+b%20c&%zz=1
>>
MCHeaderPool == <<
    H(<<88, 45, 70, 111, 111>>, <<97>>),                                \* X-Foo: a
    H(<<120, 45, 102, 111, 111>>, <<98>>),                              \* x-foo: b
    H(<<65, 99, 99, 101, 112, 116>>, <<97, 112, 112, 108, 105, 99, 97, 116, 105, 111, 110, 47, 106, 115, 111, 110>>),   \* Accept: application/json
    H(<<65, 67, 67, 69, 80, 84>>, <<116, 101, 120, 116, 47, 104, 116, 109, 108, 59, 113, 61, 48, 46, 53>>),             \* ACCEPT: text/html;q=0.5
    H(<<67, 111, 111, 107, 105, 101>>, <<97, 61, 49, 59, 32, 98, 61, 50>>),                                             \* Cookie: a=1; b=2
    H(<<99, 111, 111, 107, 105, 101>>, <<97, 61, 51>>),                                                                 \* cookie: a=3
    H(<<67, 111, 110, 116, 101, 110, 116, 45, 84, 121, 112, 101>>, <<97, 112, 112, 108, 105, 99, 97, 116, 105, 111, 110, 47, 106, 115, 111, 110>>),   \* Content-Type: application/json
    H(<<88, 45, 70, 111, 114, 119, 97, 114, 100, 101, 100, 45, 70, 111, 114>>, <<49, 48, 46, 48, 46, 48, 46, 49, 44, 32, 49, 48, 46, 48, 46, 48, 46, 50>>),   \* X-Forwarded-For: 10.0.0.1, 10.0.0.2
    H(<<70, 111, 114, 119, 97, 114, 100, 101, 100>>, <<102, 111, 114, 61, 49, 46, 50, 46, 51, 46, 52, 59, 104, 111, 115, 116, 61, 104, 46, 101, 120, 97, 109, 112, 108, 101, 59, 112, 114, 111, 116, 111, 61, 104, 116, 116, 112, 115>>),   \* Forwarded: for=1.2.3.4;host=h.example;proto=https
    H(<<82, 97, 110, 103, 101>>, <<98, 121, 116, 101, 115, 61, 48, 45, 52>>),                                           \* Range: bytes=0-4
    H(<<73, 102, 45, 78, 111, 110, 101, 45, 77, 97, 116, 99, 104>>, <<87, 47, 34, 120, 34, 44, 32, 34, 121, 34>>),      \* If-None-Match: W/"x", "y"
    H(<<88, 45, 76, 97, 116, 105, 110>>, <<99, 97, 102, 233>>),                                                         \* X-Latin: caf<E9>
    H(<<82, 101, 102, 101, 114, 101, 114>>, <<47, 102, 114, 111, 109>>),                                                \* Referer: /from
    H(<<117, 115, 101, 114, 45, 97, 103, 101, 110, 116>>, <<117, 98>>),                                                 \* user-agent: ub   (a second User-Agent)
    H(<<88, 45, 70, 111, 114, 119, 97, 114, 100, 101, 100, 45, 80, 114, 111, 116, 111>>, <<72, 84, 84, 80, 83>>),       \* X-Forwarded-Proto: HTTPS
    H(<<88, 45, 69, 109, 112, 116, 121>>, <<>>),                                                                        \* X-Empty:
    \* obs-text (bytes >= 0x80) in the fields behind the typed properties auth, referer, if_range, expect, user_agent
    H(<<65, 117, 116, 104, 111, 114, 105, 122, 97, 116, 105, 111, 110>>, <<66, 101, 97, 114, 101, 114, 32, 99, 97, 102, 195, 169>>),   \* Authorization: Bearer caf<C3><A9>   (a valid UTF-8 pair)
    H(<<114, 101, 102, 101, 114, 101, 114>>, <<47, 102, 114, 233>>),   \* referer: /fr<E9>                     (a lone Latin-1 byte; second Referer if /from is there)
    H(<<73, 102, 45, 82, 97, 110, 103, 101>>, <<34, 233, 116, 195, 169, 34>>),   \* If-Range: "<E9>t<C3><A9>"
    H(<<69, 120, 112, 101, 99, 116>>, <<49, 48, 48, 45, 99, 111, 110, 116, 105, 110, 117, 233>>),   \* Expect: 100-continu<E9>
    H(<<85, 83, 69, 82, 45, 65, 71, 69, 78, 84>>, <<97, 103, 233, 110, 116>>)    \* USER-AGENT: ag<E9>nt                 (a second User-Agent when the request already has one)
>>
UnderscoreHeader == H(<<88, 95, 70, 111, 111>>, <<99>>)                 \* X_Foo: c   (only with UnderscoreNames)

ABC  == <<97, 98, 99>>
JSON == <<123, 34, 97, 34, 58, 32, 49, 125>>                            \* {"a": 1}
CLenName == <<67, 111, 110, 116, 101, 110, 116, 45, 76, 101, 110, 103, 116, 104>>    \* Content-Length
(* body, how it arrives, and which Content-Length field announces it: "auto" = its length, "none", "zero", "bad" *)
MCBodies == <<
    [body |-> <<>>, chunks |-> <<>>,     cl |-> "none"],
    [body |-> ABC,  chunks |-> <<1, 1>>, cl |-> "auto"],
    [body |-> <<>>, chunks |-> <<>>,     cl |-> "zero"],
    [body |-> <<>>, chunks |-> <<>>,     cl |-> "bad"],
    [body |-> JSON, chunks |-> <<4>>,    cl |-> "auto"],
    [body |-> ABC,  chunks |-> <<>>,     cl |-> "auto"],
    [body |-> ABC,  chunks |-> <<0, 3>>, cl |-> "auto"],
    [body |-> ABC,  chunks |-> <<1>>,    cl |-> "auto"]
>>
FALCON == <<102, 97, 108, 99, 111, 110, 102, 114, 97, 109, 101, 119, 111, 114, 107, 46, 111, 114, 103>>   \* falconframework.org
EXAMPLE == <<101, 120, 97, 109, 112, 108, 101, 46, 99, 111, 109>>                                          \* example.com
SRV == <<115, 114, 118, 46, 101, 120, 97, 109, 112, 108, 101>>                                             \* srv.example
OTHER8080 == <<111, 116, 104, 101, 114, 46, 101, 120, 97, 109, 112, 108, 101, 58, 56, 48, 56, 48>>         \* other.example:8080
LOOPBACK == <<49, 50, 55, 46, 48, 46, 48, 46, 49>>                                                            \* 127.0.0.1
PEER2 == <<49, 48, 46, 49, 46, 50, 46, 51>>                                                                \* 10.1.2.3
APPROOT == <<47, 97, 112, 112>>                                                                            \* /app
HostName1 == <<72, 111, 115, 116>>                                                                         \* Host
HostName2 == <<72, 79, 83, 84>>                                                                            \* HOST
(* connection facts and the Host field: "authority" = what a client derives from name and port,
   "other" = a different authority, "none", "cased" = authority under the name HOST, "twice" *)
MCEndpoints == <<
    [scheme |-> "http",  name |-> FALCON,  port |-> 80,   root |-> <<>>,    peer |-> LOOPBACK, version |-> "1.1", host |-> "authority"],
    [scheme |-> "https", name |-> EXAMPLE, port |-> 8443, root |-> APPROOT, peer |-> PEER2, version |-> "1.1", host |-> "authority"],
    [scheme |-> "http",  name |-> SRV,     port |-> 8080, root |-> <<>>,    peer |-> LOOPBACK, version |-> "1.0", host |-> "none"],
    [scheme |-> "http",  name |-> FALCON,  port |-> 80,   root |-> <<>>,    peer |-> LOOPBACK, version |-> "1.1", host |-> "other"],
    [scheme |-> "https", name |-> EXAMPLE, port |-> 443,  root |-> <<>>,    peer |-> PEER2, version |-> "1.1", host |-> "cased"],
    [scheme |-> "http",  name |-> SRV,     port |-> 8080, root |-> APPROOT, peer |-> PEER2, version |-> "1.0", host |-> "authority"],
    [scheme |-> "http",  name |-> FALCON,  port |-> 80,   root |-> <<>>,    peer |-> LOOPBACK, version |-> "1.1", host |-> "twice"],
    [scheme |-> "https", name |-> SRV,     port |-> 80,   root |-> <<>>,    peer |-> LOOPBACK, version |-> "1.1", host |-> "authority"]
>>
(* request options: strip_url_path_trailing_slash, keep_blank_qs_values, auto_parse_qs_csv *)
MCOptions == <<
    [strip |-> FALSE, keep_blank |-> TRUE,  csv |-> FALSE],      \* the defaults
    [strip |-> TRUE,  keep_blank |-> FALSE, csv |-> TRUE],
    [strip |-> TRUE,  keep_blank |-> TRUE,  csv |-> FALSE]
>>
(* forwarding chains are built relative to the request's own peer address P (A, B: other addresses):
   peer absent, peer last, peer first of several, peer in the middle, peer twice, peer alone *)
ADDR_A == <<50, 48, 51, 46, 48, 46, 49, 49, 51, 46, 55>>               \* 203.0.113.7
ADDR_B == <<49, 57, 56, 46, 53, 49, 46, 49, 48, 48, 46, 50>>           \* 198.51.100.2
XFFName == <<88, 45, 70, 111, 114, 119, 97, 114, 100, 101, 100, 45, 70, 111, 114>>    \* X-Forwarded-For
FwdName == <<70, 111, 114, 119, 97, 114, 100, 101, 100>>                              \* Forwarded
RipName == <<88, 45, 82, 101, 97, 108, 45, 73, 80>>                                   \* X-Real-IP
MCForwarding == <<
    [field |-> "none", chain |-> <<>>],
    [field |-> "xff",  chain |-> <<"P", "A">>],
    [field |-> "fwd",  chain |-> <<"P", "A">>],
    [field |-> "xff",  chain |-> <<"A", "P", "B">>],
    [field |-> "xff",  chain |-> <<"A", "P">>],
    [field |-> "xff",  chain |-> <<"P", "A", "P">>],
    [field |-> "fwd",  chain |-> <<"A", "P", "B">>],
    [field |-> "xff",  chain |-> <<"A", "B">>],
    [field |-> "rip",  chain |-> <<"P">>],
    [field |-> "fwd",  chain |-> <<"P", "A", "P">>],
    [field |-> "xff",  chain |-> <<"P">>],
    [field |-> "fwd",  chain |-> <<"A", "P">>],
    [field |-> "rip",  chain |-> <<"A">>],
    [field |-> "fwd",  chain |-> <<"A", "B">>]
>>
Addr(tok, peer) == CASE tok = "P" -> peer [] tok = "A" -> ADDR_A [] OTHER -> ADDR_B
ForwardingFields(f, peer) ==
    LET as == [i \in 1..Len(f.chain) |-> Addr(f.chain[i], peer)] IN
    CASE f.field = "xff" -> <<H(XFFName, JoinSep(as, <<44, 32>>))>>                                          \* a, b
      [] f.field = "fwd" -> <<H(FwdName, JoinSep([i \in 1..Len(as) |-> <<102, 111, 114, 61>> \o as[i]], <<44, 32>>))>>   \* for=a, for=b
      [] f.field = "rip" -> <<H(RipName, as[1])>>
      [] OTHER -> <<>>

UAField == H(<<85, 115, 101, 114, 45, 65, 103, 101, 110, 116>>, <<117, 97>>)     \* User-Agent: ua

Pool == {MCHeaderPool[i] : i \in 1..NPool} \cup (IF UnderscoreNames THEN {UnderscoreHeader} ELSE {})

Blank == [method |-> "GET", target |-> <<SLASH>>, query |-> <<>>, headers |-> <<>>, body |-> <<>>, chunks |-> <<>>,
          scheme |-> "http", server |-> [name |-> FALCON, port |-> 80], root |-> <<>>, peer |-> LOOPBACK, version |-> "1.1"]

Init == r = Blank /\ stage = "start" /\ app = [opts |-> MCOptions[1], kind |-> "echo", resp |-> NoPlain]

Start(m, ua, o) ==
    /\ stage = "start"
    /\ r' = [r EXCEPT !.method = m, !.headers = IF ua THEN <<UAField>> ELSE <<>>]
    /\ app' = [app EXCEPT !.opts = MCOptions[o]]
    /\ stage' = "class"
SetClass(c) == stage = "class" /\ stage' = c /\ UNCHANGED <<r, app>>       \* fixed script or plain responder
SetResponder(k, p) ==
    /\ stage = (IF k = "plain" THEN "plain" ELSE "script")
    /\ app' = [app EXCEPT !.kind = k, !.resp = p]
    /\ stage' = "target" /\ UNCHANGED r
SetTarget(t) == stage = "target" /\ r' = [r EXCEPT !.target = t] /\ stage' = "query" /\ UNCHANGED app
SetQuery(q)  == stage = "query" /\ r' = [r EXCEPT !.query = q] /\ stage' = "headers" /\ UNCHANGED app
PoolFields == Len(r.headers) - (IF r.headers # <<>> /\ r.headers[1] = UAField THEN 1 ELSE 0)
AddHeader(h) == /\ stage = "headers" /\ PoolFields < MaxHeaders
                /\ r' = [r EXCEPT !.headers = Append(@, h)] /\ UNCHANGED <<stage, app>>
EndHeaders   == stage = "headers" /\ stage' = "body" /\ UNCHANGED <<r, app>>
SetBody(b) ==
    /\ stage = "body"
    /\ r' = [r EXCEPT !.body = b.body, !.chunks = b.chunks,
                      !.headers = CASE b.cl = "auto" -> Append(@, H(CLenName, DecStr(Len(b.body))))
                                    [] b.cl = "zero" -> Append(@, H(CLenName, <<48>>))
                                    [] b.cl = "bad"  -> Append(@, H(CLenName, <<120>>))
                                    [] OTHER -> @]
    /\ stage' = "endpoint" /\ UNCHANGED app
SetEndpoint(e) ==
    /\ stage = "endpoint"
    /\ LET auth == Authority(e.name, e.port, e.scheme)
           hs == CASE e.host = "authority" -> <<H(HostName1, auth)>>
                   [] e.host = "other"     -> <<H(HostName1, OTHER8080)>>
                   [] e.host = "cased"     -> <<H(HostName2, auth)>>
                   [] e.host = "twice"     -> <<H(HostName1, auth), H(HostName2, OTHER8080)>>
                   [] OTHER -> <<>>
       IN r' = [r EXCEPT !.scheme = e.scheme, !.server = [name |-> e.name, port |-> e.port], !.root = e.root,
                         !.peer = e.peer, !.version = e.version, !.headers = hs \o @]
    /\ stage' = "forwarding" /\ UNCHANGED app
SetForwarding(f) ==
    /\ stage = "forwarding"
    /\ r' = [r EXCEPT !.headers = @ \o ForwardingFields(f, r.peer)]
    /\ stage' = "send" /\ UNCHANGED app
Send == stage = "send" /\ stage' = "sent" /\ UNCHANGED <<r, app>>

PlainParams  == {p \in [status : Statuses, text : Tri, data : Tri, media : Tri, stream : BOOLEAN, ctype : BOOLEAN, script : Scripts] :
                    p.script = "early-mutate" => p.media # "unset"}
XSetClass    == \E c \in {"script"} \cup (IF PlainShare > 0 THEN {"plain"} ELSE {}) : SetClass(c)
XStart       == \E m \in Methods, u \in 1..4, o \in 1..NOptions : Start(m, u > 1, o)            \* 3 in 4 carry a User-Agent
XSetResponder == \/ \E k \in Kinds : SetResponder(k, NoPlain)
                 \/ \E p \in PlainParams : SetResponder("plain", p)
XSetTarget   == \E i \in 1..NTargets : SetTarget(MCTargets[i])
XSetQuery    == \E i \in 1..NQueries : SetQuery(MCQueries[i])
XAddHeader   == \E h \in Pool : AddHeader(h)
XEndHeaders  == EndHeaders
XSetBody     == \E i \in 1..NBodies : SetBody(MCBodies[i])
XSetEndpoint == \E i \in 1..NEndpoints : SetEndpoint(MCEndpoints[i])
XSetForwarding == \E i \in 1..NForwarding : SetForwarding(MCForwarding[i])
XSend        == Send
Next == XStart \/ XSetClass \/ XSetResponder \/ XSetTarget \/ XSetQuery \/ XAddHeader \/ XEndHeaders \/ XSetBody \/ XSetEndpoint \/ XSetForwarding \/ XSend
Spec == Init /\ [][Next]_vars

Sent == stage = "sent"
(* ---- invariants (on complete requests) ---- *)
GeneratedAreWellFormed == Sent => WellFormed(r)
EncodingsAgree        == Sent => EncodingsCarrySameInformation(r, app.opts)
ClientSaysTheSame     == Sent => ClientRoundTrip(r, app.opts)
(* all three encodings keep the raw material: nothing is lost before the application decodes it *)
RawMaterialKept ==
    Sent => /\ ToScope(r).raw_path = r.target /\ ToClientArgs(r).path = r.target
            /\ Gather(ToScope(r).events) = r.body /\ ToEnviron(r).input = r.body
            /\ Len(ToScope(r).headers) = Len(r.headers)

(* ---- export (leg A) ---- *)
Exp(v) == [method |-> v.method, path |-> v.path, query |-> v.query, hmap |-> v.hmap, has_ctype |-> v.has_ctype,
           ctype |-> v.ctype, clen |-> v.clen, host |-> v.host, port |-> v.port, netloc |-> v.netloc,
           scheme |-> v.scheme, root |-> v.root, peer |-> v.peer, body |-> v.body]
Emit == Sent => PrintT(ToJson(
          [req |-> r, opts |-> app.opts, kind |-> app.kind, resp |-> app.resp, status |-> ResponderStatus(app.kind, app.resp),
           environ |-> ToEnviron(r), scope |-> ToScope(r), client |-> ToClientArgs(r),
           canonical |-> Canonical(r.headers),
           expressible |-> [raw_wsgi |-> Expressible(r, "raw-wsgi") /\ Reportable("raw-wsgi", app.kind, app.resp), raw_asgi |-> Expressible(r, "raw-asgi") /\ Reportable("raw-asgi", app.kind, app.resp),
                            client_wsgi |-> Expressible(r, "client-wsgi") /\ Reportable("client-wsgi", app.kind, app.resp), client_asgi |-> Expressible(r, "client-asgi") /\ Reportable("client-asgi", app.kind, app.resp)],
           expected |-> Exp(View(r, app.opts))]))
================================================================================
