---------------------------- MODULE ErrorObject ----------------------------
(* C04, rendering clause for error OBJECTS WITH A HISTORY.  One falcon.HTTPError instance lives as long as
   the application wants (a module-level object, or one caught, amended and raised again inside a request).
   Its public attributes are state:

     val = [title, description, code, link, hdr]   each the VERSION number of the value the attribute holds
                                                   (the k-th assignment made to the object writes version k);
                                                   -1: the attribute is None (description, code, link only)

   Actions: Amend (the application assigns an attribute), Peek (the application calls to_dict() / to_json() /
   to_xml() itself, e.g. to log the error), Raise (a responder raises the object; the request's Accept header
   is chosen), Catch / Reraise (an error handler of the application receives it, may Peek and Amend, and raises
   it again), RenderObj (the framework renders it: ErrorRender!Render for status / negotiation, and the document).

   Law (RenderedIsCurrent): every rendering - JSON, XML, configured media handler - is the encoding of the
   CURRENT attributes, whatever was rendered or peeked before.
   Named wrong design "memo_json" (constant WrongRender of ErrorRender): to_json() keeps the first document it
   produced and hands it out again. *)
EXTENDS ErrorRender

CONSTANTS MaxAmends, MaxPeeks, MaxRenders
VARIABLES val, ver, where, doc, memo, fresh, caught, namend, npeek, nrend
ovars == <<val, ver, where, doc, memo, fresh, caught, namend, npeek, nrend>>
allvars == <<vars, ovars>>

AttrNames == {"title", "description", "code", "link", "hdr"}
Optional  == {"description", "code", "link"}
Val0   == [title |-> 0, description |-> 0, code |-> 0, link |-> 0, hdr |-> 0]
NoDoc  == [kind |-> "", title |-> -1, description |-> -1, code |-> -1, link |-> -1, hdr |-> -1]
NoMemo == [title |-> -2, description |-> -2, code |-> -2, link |-> -2]
ErrOf(v) == [status |-> 422, desc |-> v.description # -1, code |-> v.code # -1, link |-> v.link # -1,
             shape |-> "plain", ctor |-> NoCtor]
Body(v) == [title |-> v.title, description |-> v.description, code |-> v.code, link |-> v.link]
(* the document of representation `kind` for attribute values v: headers always, fields if there is a body *)
Encode(v, kind) == IF kind = "none" THEN [NoDoc EXCEPT !.kind = "none", !.hdr = v.hdr]
                   ELSE [kind |-> kind, title |-> v.title, description |-> v.description, code |-> v.code,
                         link |-> v.link, hdr |-> v.hdr]
(* what to_json() returns *)
ToJson0(v) == IF WrongRender = "memo_json" /\ memo # NoMemo THEN memo ELSE Body(v)
Remember(v) == IF WrongRender = "memo_json" /\ memo = NoMemo THEN Body(v) ELSE memo

OInit == /\ acc \in Accepts /\ xmlOn = TRUE /\ extra \in ExtraHandlers /\ err = ErrOf(Val0) /\ out = Pending
         /\ val = Val0 /\ ver = 1 /\ where = "idle" /\ doc = NoDoc /\ memo = NoMemo /\ fresh = FALSE /\ caught = FALSE
         /\ namend = 0 /\ npeek = 0 /\ nrend = 0

Holding == where \in {"idle", "caught"}      \* application code holds the object and may touch it

Amend(f, none) ==
    /\ Holding /\ namend < MaxAmends /\ (none => f \in Optional /\ val[f] # -1)
    /\ val' = [val EXCEPT ![f] = IF none THEN -1 ELSE ver]
    /\ ver' = ver + 1 /\ namend' = namend + 1 /\ fresh' = FALSE
    /\ err' = ErrOf(val')
    /\ UNCHANGED <<acc, xmlOn, extra, out, where, doc, memo, caught, npeek, nrend>>

Peek(k) ==
    /\ Holding /\ npeek < MaxPeeks /\ k \in {"dict", "json", "xml"}
    /\ memo' = (IF k = "json" THEN Remember(val) ELSE memo)
    /\ npeek' = npeek + 1
    /\ UNCHANGED <<vars, val, ver, where, doc, fresh, caught, namend, nrend>>

Raise(a) ==
    /\ where = "idle" /\ nrend < MaxRenders
    /\ acc' = a /\ where' = "raised" /\ caught' = FALSE /\ fresh' = FALSE
    /\ UNCHANGED <<xmlOn, extra, err, out, val, ver, doc, memo, namend, npeek, nrend>>

Catch ==
    /\ where = "raised" /\ ~caught /\ where' = "caught" /\ caught' = TRUE
    /\ UNCHANGED <<vars, val, ver, doc, memo, fresh, namend, npeek, nrend>>

Reraise ==
    /\ where = "caught" /\ where' = "raised"
    /\ UNCHANGED <<vars, val, ver, doc, memo, fresh, caught, namend, npeek, nrend>>

RenderObj ==
    /\ where = "raised"
    /\ out' = Render(err, acc, xmlOn, Handlers)
    /\ doc' = (IF out'.kind = "json" THEN [Encode(val, "json") EXCEPT !.title = ToJson0(val).title,
                                                 !.description = ToJson0(val).description, !.code = ToJson0(val).code,
                                                 !.link = ToJson0(val).link]
               ELSE Encode(val, out'.kind))
    /\ memo' = (IF out'.kind = "json" THEN Remember(val) ELSE memo)
    /\ where' = "idle" /\ fresh' = TRUE /\ nrend' = nrend + 1
    /\ UNCHANGED <<acc, xmlOn, extra, err, val, ver, caught, namend, npeek>>

ONext == \/ \E f \in AttrNames, n \in BOOLEAN : Amend(f, n)
         \/ \E k \in {"dict", "json", "xml"} : Peek(k)
         \/ \E a \in Accepts : Raise(a)
         \/ Catch \/ Reraise \/ RenderObj
OSpec == OInit /\ [][ONext]_allvars

(* ------------------------------- properties ------------------------------- *)
RenderedIsCurrent == fresh => doc = Encode(val, out.kind)
NegotiatedFromCurrent == fresh => out = Render(ErrOf(val), acc, xmlOn, Handlers)
ErrTracksVal == err = ErrOf(val)
(* an attribute set to None is not in the document, one that is set is *)
PresenceFollowsAmend == fresh /\ out.kind # "none" =>
    \A f \in Optional : (val[f] = -1) = (f \notin out.fields) /\ (doc[f] = -1) = (val[f] = -1)
=============================================================================
