INIT Init
NEXT XNext
CONSTANTS
  Alphabet <- UriAlphabet
  MaxLen = 0
  Fns <- TokFnsT
  Extra <- TokInputs4
  KnownLiterals <- KnownLits
INVARIANT DecodeTotal
INVARIANT DecodeIdentityOnPlain
INVARIANT DecodeConcat
INVARIANT DecodeChunkLaw
INVARIANT EncodeOutputAlphabet
INVARIANT EncodeConcat
INVARIANT DecodeEncodeId
INVARIANT EncodedPiecesAreChunks
INVARIANT CheckEscapedFixpoint
INVARIANT CheckEscapedConcat
INVARIANT Emit
