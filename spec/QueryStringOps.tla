-------------------------- MODULE QueryStringOps --------------------------
(* C08: the form-urlencoded reference reading of a query string, and the rendering of a
   parameter mapping, as functions over text (sequences of code points, see UriOps).

   A parse result is   [entries |-> <<[k, v, shape], ...>>, zero |-> <<name, ...>>, blankcsv |-> BOOLEAN]
     k      the decoded name                       v   its decoded values in order of occurrence (never empty)
     shape  "list" iff the name occurred more than once or a value was split at commas, else "scalar"
     entries are in order of first occurrence;
     zero lists the names that are PRESENT WITH ZERO VALUES: every field of that name had a
     comma-separated value of blank elements only, all dropped.  The property does not say whether
     such a name is in the mapping (with an empty list) or not: both are accepted; the scalar getters
     must treat it as absent (ParamGettersOps).
     blankcsv is TRUE iff some field's comma-separated value consisted of blank elements only and
     was therefore dropped as a whole: shape and order of the result are then not pinned down
     (only which names map to which values is).

   A mapping handed to to_query_str is a sequence of entries [k, v, shape] with distinct names. *)
EXTENDS UriOps

AMP   == 38
EQ    == 61
COMMA == 44
QMARK == 63

RECURSIVE SplitOn(_, _)
SplitOn(t, c) ==                               \* like str.split(c): always at least one part
    LET P == Positions(t, c)
    IN  IF P = {} THEN <<t>>
        ELSE <<SubSeq(t, 1, MinOf(P) - 1)>> \o SplitOn(SubSeq(t, MinOf(P) + 1, Len(t)), c)

RECURSIVE JoinWith(_, _)
JoinWith(ss, c) == IF ss = <<>> THEN <<>>
                   ELSE IF Len(ss) = 1 THEN ss[1]
                   ELSE ss[1] \o <<c>> \o JoinWith(Tail(ss), c)

(* a field is split at its FIRST '=' *)
FieldOf(f) == LET P == Positions(f, EQ)
              IN  IF P = {} THEN [k |-> f, v |-> <<>>]
                  ELSE [k |-> SubSeq(f, 1, MinOf(P) - 1), v |-> SubSeq(f, MinOf(P) + 1, Len(f))]

DecodeQ(t) == Decode(t, TRUE)                  \* percent- and plus-decoding, UTF-8 with replacement

(* a field without a value is kept only when blanks are kept and it has a name *)
Kept(f, kb)   == ~(f.v = <<>> /\ (~kb \/ f.k = <<>>))
IsCsv(f, csv) == csv /\ COMMA \in {f.v[i] : i \in 1..Len(f.v)}     \* literal commas only: split BEFORE decoding

RECURSIVE MapDecode(_)
MapDecode(ss) == IF ss = <<>> THEN <<>> ELSE <<DecodeQ(Head(ss))>> \o MapDecode(Tail(ss))

NonEmpty(t) == t # <<>>

ValuesOf(f, kb, csv) ==
    IF IsCsv(f, csv)
    THEN LET parts == SplitOn(f.v, COMMA)
         IN  MapDecode(IF kb THEN parts ELSE SelectSeq(parts, NonEmpty))
    ELSE <<DecodeQ(f.v)>>

AddField(acc, f, kb, csv) ==
    LET n  == DecodeQ(f.k)
        vs == ValuesOf(f, kb, csv)
        P  == {i \in 1..Len(acc) : acc[i].k = n}
    IN  IF P = {} THEN Append(acc, [k |-> n, v |-> vs, shape |-> IF IsCsv(f, csv) THEN "list" ELSE "scalar"])
        ELSE [acc EXCEPT ![MinOf(P)] = [k |-> n, v |-> @.v \o vs, shape |-> "list"]]

RECURSIVE Collect(_, _, _, _)
Collect(acc, fs, kb, csv) ==
    IF fs = <<>> THEN acc
    ELSE LET f == FieldOf(Head(fs))
         IN  Collect(IF Kept(f, kb) THEN AddField(acc, f, kb, csv) ELSE acc, Tail(fs), kb, csv)

HasValues(e) == e.v # <<>>
NoValues(e)  == e.v = <<>>
KeyOf(e)     == e.k
MapKeys(es)  == [i \in 1..Len(es) |-> es[i].k]

Parse(q, kb, csv) ==
    LET fs  == SplitOn(q, AMP)
        acc == Collect(<<>>, fs, kb, csv)
    IN  [entries  |-> SelectSeq(acc, HasValues),
         zero     |-> MapKeys(SelectSeq(acc, NoValues)),
         blankcsv |-> \E i \in 1..Len(fs) : LET f == FieldOf(fs[i])
                                            IN  Kept(f, kb) /\ IsCsv(f, csv) /\ ValuesOf(f, kb, csv) = <<>>]

ZeroNames(r)  == {r.zero[i] : i \in 1..Len(r.zero)}
Names(r)      == {r.entries[i].k : i \in 1..Len(r.entries)}
ValuesFor(r, n) == LET P == {i \in 1..Len(r.entries) : r.entries[i].k = n}
                   IN  IF P = {} THEN <<>> ELSE r.entries[MinOf(P)].v
(* the mapping proper: which names, which values; shape and order left aside *)
SameMapping(r1, r2) == Names(r1) = Names(r2) /\ \A n \in Names(r1) : ValuesFor(r1, n) = ValuesFor(r2, n)

(* ---------------------------------------------------------- to_query_str *)
EncV(t) == Encode(t, ValueAllowed)

RECURSIVE MapEnc(_)
MapEnc(ss) == IF ss = <<>> THEN <<>> ELSE <<EncV(Head(ss))>> \o MapEnc(Tail(ss))

RECURSIVE Repeat(_, _)
Repeat(k, vs) == IF vs = <<>> THEN <<>> ELSE <<EncV(k) \o <<EQ>> \o EncV(Head(vs))>> \o Repeat(k, Tail(vs))

(* the fields one entry contributes *)
EntryFields(e, commaLists) ==
    IF e.shape = "scalar" THEN <<EncV(e.k) \o <<EQ>> \o EncV(e.v[1])>>
    ELSE IF commaLists THEN <<EncV(e.k) \o <<EQ>> \o JoinWith(MapEnc(e.v), COMMA)>>
    ELSE Repeat(e.k, e.v)

RECURSIVE AllFields(_, _)
AllFields(m, commaLists) == IF m = <<>> THEN <<>> ELSE EntryFields(Head(m), commaLists) \o AllFields(Tail(m), commaLists)

Render(m, commaLists, prefix) ==
    LET fs == AllFields(m, commaLists)
    IN  IF fs = <<>> THEN <<>>                  \* nothing to say: no '?' either
        ELSE (IF prefix THEN <<QMARK>> ELSE <<>>) \o JoinWith(fs, AMP)

(* what a rendered mapping must parse back to: every name with its values; an entry without values
   (an empty list) has nothing to come back *)
AsResult(m) == [entries |-> SelectSeq(m, HasValues), zero |-> <<>>, blankcsv |-> FALSE]
===========================================================================
