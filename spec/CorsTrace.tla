---------------------------- MODULE CorsTrace ----------------------------
(* Trace judge for C20.  A trace is one app: [sbs, wiring, cfg, other, ev]; assembly events are those of
   DispatchTrace; a request event carries origin / acrm / acrh / beh and the observed final headers
   hdr = [acao, acac, aceh, acam: [has, v], acah, acma, allow: [has, v]].  Clauses:
     P:acao       Access-Control-Allow-Origin differs (a grant that must not be there, a missing or wrong one)
     P:acac       Access-Control-Allow-Credentials differs
     P:aceh       Access-Control-Expose-Headers differs
     P:preflight  Access-Control-Allow-Methods / -Headers / -Max-Age differ
     P:allow      the Allow header differs (must be removed exactly on an approved / denied preflight)
     D:leftover-credentials  the credentials header after a DENIED preflight differs (the spec follows the code,
                  which leaves it behind; without an origin header it grants nothing either way) *)
EXTENDS Cors, DispatchTrace

Conf(c) == [ao |-> [star |-> c.ao.star, set |-> Range(c.ao.set)], ac |-> [star |-> c.ac.star, set |-> Range(c.ac.set)],
            eh |-> c.eh]
(* the objects the harness handed to the constructor (forms as it built them), as sets / sequences *)
CallerOf(a) == [ao |-> Arg(a.ao.form, a.ao.star, Range(a.ao.items)), ac |-> Arg(a.ac.form, a.ac.star, Range(a.ac.items)),
                eh |-> EhArg(a.eh.form, a.eh.items)]
CTInit == /\ TInit
          /\ wiring = Traces[tid].wiring /\ cfg = Conf(Traces[tid].cfg) /\ other = Traces[tid].other
          /\ guard = 0 /\ ans = NoAns /\ served = 0 /\ memo = NoMemo
          /\ caller = CallerOf(Traces[tid].caller)

ObsSet(x) == [has |-> x.has, v |-> Range(x.v)]
JudgeCors ==
    LET rq  == Rq(Ev.origin, Ev.m, Ev.p, Ev.acrm, Ev.acrh)
        x   == Seen(Ev.m, Ev.p, Ev.beh)
        out == FinalOf(rq, x)
        h   == Ev.hdr
    IN  IF Ev.obs.bad THEN "P:exception"
        ELSE IF h.acao # out.acao THEN "P:acao"
        ELSE IF h.acac # out.acac
             THEN (IF IsPreflight(rq, x) /\ Allowed(cfg, rq.origin) /\ ~x.hdr.allow.has THEN "D:leftover-credentials" ELSE "P:acac")
        ELSE IF h.aceh # out.aceh THEN "P:aceh"
        ELSE IF ObsSet(h.acam) # out.acam \/ h.acah # out.acah \/ h.acma # out.acma THEN "P:preflight"
        ELSE IF ObsSet(h.allow) # out.allow THEN "P:allow"
        ELSE "ok"

CStep ==
    /\ l >= 1 /\ l <= Len(T.ev) /\ verdict = "ok"
    /\ verdict' = (CASE Ev.op = "req" -> JudgeCors [] Ev.op = "route" -> JudgeRoute [] Ev.op = "sink" -> JudgeSink
                         [] Ev.op = "mutate" -> (IF Ev.opt \in {"ao", "ac", "eh"} /\ caller[Ev.opt].form \in MutableForms
                                                 THEN "ok" ELSE "H:mutate")
                         [] OTHER -> "ok")
    /\ Apply
    /\ served' = (IF Ev.op = "req" THEN served + 1 ELSE served)
    (* "mutate": the harness mutated the object it had passed to the constructor; the caller's object moves, the policy
       (cfg) does not - every later request is still judged against the configuration at construction *)
    /\ caller' = (IF Ev.op # "mutate" THEN caller
                  ELSE IF Ev.opt = "eh"
                       THEN [caller EXCEPT !.eh.items = IF Ev.how = "add" THEN Append(@, Ev.item)
                                                        ELSE SelectSeq(@, LAMBDA y : y # Ev.item)]
                       ELSE [caller EXCEPT ![Ev.opt].items = IF Ev.how = "add" THEN @ \cup {Ev.item} ELSE @ \ {Ev.item}])
    /\ UNCHANGED <<wiring, cfg, other, guard, ans, memo>>

CDone == Done /\ UNCHANGED <<wiring, cfg, other, guard, ans, caller, served, memo>>
CTNext == CStep \/ CDone
==========================================================================
