INIT Init
NEXT XNext
CONSTANTS
  Alphabet <- QsAlphabet5
  MaxLen = 5
  Extra <- NoStrings
  Mappings <- NoMappings
  KnownLiterals <- NoStrings
INVARIANT ParseTotal
INVARIANT BlanksOnlyFilter
INVARIANT CsvOffOneValuePerField
INVARIANT AmpConcat
INVARIANT Emit
