INIT MCInit
NEXT XNext
CONSTANTS
  Conns = {1, 2}
  Bases = {1, 2, 3}
  Kinds = {"text", "bin"}
  Marks = {7}
  ShareDecoded = FALSE
  MemoEncoded = FALSE
  MaxFrames = 3
  MaxHeap = 3
  MaxMut = 1
  MaxDistinct = 2
  MaxSends = 1
  Depth = 0
VIEW MCView
PROPERTY DeliveredHolds
PROPERTY NoSharedHolds
PROPERTY SentHolds
PROPERTY MCStable
