INIT MCInit
NEXT ANext
CONSTANTS
  Stacks = {"wsgi", "asgi"}
  Framings <- MCFramings
  CTypes <- MCCTypes
  HandlerOf <- MCHandlerOf
  BodyKinds <- MCBodyKinds
  CacheError = TRUE
  CacheDefault = FALSE
  HandlerDecidesEmpty = TRUE
  KeepFirstError = TRUE
  Contexts <- PlainOnly
  Depth = 4
INVARIANT Emit
