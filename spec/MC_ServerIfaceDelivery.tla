----------------------- MODULE MC_ServerIfaceDelivery -----------------------
(* Bounded instances of ServerIfaceDelivery: the data a source may hold.  With BlockSize = 4 every composition of
   6 bytes into blocks of 1..4 bytes is a delivery pattern of the file-like (1 byte, then 3 bytes, then the rest;
   full blocks followed by a short one; a full last block; ...), and every sequence of <= MaxChunks chunk sizes
   (zeros included) one of the iterable. *)
EXTENDS ServerIfaceDelivery

MCDatas == <<
    <<>>,                                   \* a source that has nothing: the end at once
    <<7>>,
    <<0, 255, 97, 98, 10>>,
    <<1, 2, 3, 4, 5, 250>>,
    <<9, 8, 7, 6, 5, 4, 3, 2>>              \* two full blocks (thorough)
>>
MCDatasQ == SubSeq(MCDatas, 1, 4)
=============================================================================
