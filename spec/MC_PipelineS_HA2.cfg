INIT SInit
NEXT SNext
CONSTANTS
  Stacks <- StackFull1
  Indeps <- OnlyIndep
  Targets <- AllTargets
  MaxHooks = 0
  InitRegs <- NoRegs
  RegClasses <- C4RegClasses
  RegBehs <- C4RegBehs
  MaxRegs = 2
  RaiseClasses <- C4Raise
  RenderClasses <- C4Render
  Mro <- MCMro
  StatusOf <- MCStatus
  OwnVary <- MCOwnVary
  MaxReqs = 1
  WrongDesign = "none"
  SameObj = FALSE
  MaxFaults = 1
INVARIANT Emit
