\* thorough exhaustive design check: capacities 0..4, <= 5 messages +- disconnect, <= 7 calls, 2 cancellations
INIT XInit
NEXT XNext
CONSTANTS
  MaxQs = {0, 1, 2, 3, 4}
  NMsg = 5
  DiscChoices = {TRUE, FALSE}
  GeCmp = TRUE
  AwaitStop = TRUE
  NotifyPop = TRUE
  ReleaseOnEnd = TRUE
  Faults = TRUE
  StopAfterSend = TRUE
  CleanupOnDisc = TRUE
  MaxSendFail = 1
  Family = "none"
  MaxOps = 7
  MaxCancel = 2
  Depth = 0
INVARIANT TypeOK
INVARIANT Fifo
INVARIANT Conserved
INVARIANT Bounded
INVARIANT Held
INVARIANT PullsStopWhenFull
INVARIANT PumpStopsAfterDisc
INVARIANT DisconnectAfterPreceding
INVARIANT NoLostWake
INVARIANT WaitersConsistent
INVARIANT NothingLeftRunning
INVARIANT AfterAppReturn
INVARIANT AcceptedHasPump
PROPERTY XSenderLearnsPromptly
