-------------------------- MODULE WsBufferTrace --------------------------
(* Trace judge for C18 (code -> spec).  Reads a JSON list of boundary traces recorded from the
   real falcon.asgi WebSocket on the stepped loop:
       [mq, all, ev: [e, m, op, r, t, p, o]]
   and replays each one with the ACTIONS OF WsBuffer.  Only what crosses the boundary is logged:
       Arrive(m)                      the server made client event m available (0 = disconnect)
       SrvRecvCall / SrvRecvRet(m) / SrvRecvCancel     the framework's use of the server's receive()
       SrvSend(t)                     send / close handed to the server
       SrvRecvFail                    the server's receive() raised into the framework (injected fault)
       AppCall(op, b) / AppRet(op, r, p) application call and its return (r: message, 0 disconnected,
                                      -2 ok, -3 cancelled, -4 the server refused the close event,
                                      -9 unexpected exception; p: stray tasks; b = 1 on a close call:
                                      the server will refuse its close event)
       RespEnd                        the responder is over (returned, or let WebSocketDisconnected propagate)
       AppReturn(r, p, o)             the ASGI application callable has returned (r = -9: it raised)
       Cancel                         the pending receive was cancelled
       End(p, o, b) / Final(p, o)     quiescence after the script (b = 1: the system never became quiet) /
                                      after the framework's own close
   receive calls come from the reader task, send/close calls from the writer task (see WsBuffer);
   a receive may be pending while the other task sends or closes.
   Queue, in-hand event, waiters and the pump's position are NOT logged: TLC infers them through
   at most MaxSil silent steps between two logged events.

   Total and verdict-carrying: a run that cannot take the next event records the clause that
   failed instead of dead-locking.  A trace is accepted iff some run ends with verdict "ok".
     P:fifo, P:recv, P:recv_error, P:disconnect_before_messages, P:recv_disconnect
     P:bound, P:pull_after_disconnect, P:pull, P:pull_without_receive, P:reader_cancelled
     P:send_after_disconnect, P:send_spurious_disconnect, P:send_error, P:close_error
     P:left_waiting, P:left_running, P:left_running_after_app, P:app_error, P:close_spurious_failure
     D:busy_wait      (detail: something keeps polling although nothing is owed to the application)
     D:pump_stalled   (detail: the reader did not resume although no receive was waiting)
     D:close_order    (detail: the reader was cancelled before, not after, the close event was sent)
     D:wire           (detail: a send/close event the model does not expect at this point)
   "Nothing is left running" is judged when close() has RETURNED (AppRet close: no stray task, no
   receive() outstanding), when the application callable has returned (AppReturn: the same) and at
   End / Final - not at the instant the close event goes on the wire.
     H:*              (the harness contradicts itself: machinery failure) *)
EXTENDS WsBuffer, Json, IOUtils

CONSTANT MaxSil
Traces == JsonDeserialize(IOEnv.TRACE_FILE)
ERR == -9

VARIABLES tid, l, sil, verdict,
          rdue,   \* a receive completed in the model; its AppRet has not been read yet
          wdue,   \* a send/close completed in the model; its AppRet has not been read yet
          wire,   \* "none" | "due" | "done": the SrvSend belonging to the running send/close
          creq,   \* a cancellation was requested and not yet reported
          rawc    \* unbuffered mode: the running receive has called the server
jx == <<rdue, wdue, wire, creq, rawc>>
jvars == <<vars, tid, l, sil, verdict, jx>>

T    == Traces[tid]
More == l >= 1 /\ l <= Len(T.ev) /\ verdict = "ok"
Ev   == T.ev[l]
Is(e) == More /\ Ev.e = e

JInit == /\ tid \in 1..Len(Traces) /\ l = 1 /\ sil = 0 /\ verdict = "ok"
         /\ rdue = FALSE /\ wdue = FALSE /\ wire = "none" /\ creq = FALSE /\ rawc = FALSE
         /\ InitWith(Traces[tid].mq, Traces[tid].all)

Logged == l' = l + 1 /\ sil' = 0 /\ UNCHANGED <<tid, verdict>>
Silent == More /\ sil < MaxSil /\ sil' = sil + 1 /\ UNCHANGED <<tid, l, verdict, jx>>

(* ---------------- logged steps: a boundary event bound to an action of WsBuffer ---------------- *)
JArrive     == Is("Arrive") /\ srv # <<>> /\ Head(srv) = Ev.m /\ SrvArrive /\ Logged /\ UNCHANGED jx
JSrvFail    == Is("SrvRecvFail") /\ SrvFail /\ Logged /\ UNCHANGED jx
JPumpCall   == Is("SrvRecvCall") /\ mq > 0 /\ ~disc /\ PumpLoop /\ Logged /\ UNCHANGED jx
JRawCall    == Is("SrvRecvCall") /\ mq = 0 /\ rpc = "recvRaw" /\ pull = "app" /\ ~rawc
               /\ rawc' = TRUE /\ UNCHANGED vars /\ Logged /\ UNCHANGED <<rdue, wdue, wire, creq>>
JPumpGot    == Is("SrvRecvRet") /\ mq > 0 /\ avail # <<>> /\ Head(avail) = Ev.m /\ PumpGot /\ Logged /\ UNCHANGED jx
JRawGot     == Is("SrvRecvRet") /\ mq = 0 /\ rawc /\ avail # <<>> /\ Head(avail) = Ev.m /\ RecvRawRet
               /\ rdue' = TRUE /\ rawc' = FALSE /\ Logged /\ UNCHANGED <<wdue, wire, creq>>
JPumpCancel == Is("SrvRecvCancel") /\ pull = "pump" /\ PumpCancelled /\ Logged /\ UNCHANGED jx
JRawCancel  == Is("SrvRecvCancel") /\ pull = "app" /\ creq /\ rawc
               /\ rawc' = FALSE /\ UNCHANGED vars /\ Logged /\ UNCHANGED <<rdue, wdue, wire, creq>>
JCallRecv   == /\ Is("AppCall") /\ Ev.op = "recv" /\ rpc = "idle" /\ ~rdue
               /\ AppRecv /\ rdue' = RReturned
               /\ Logged /\ UNCHANGED <<wdue, wire, creq, rawc>>
JCallWrite  == /\ Is("AppCall") /\ Ev.op \in {"send", "close"} /\ wpc = "idle" /\ ~wdue
               /\ \/ Ev.op = "send" /\ AppSend
                  \/ Ev.op = "close" /\ Ev.b = 0 /\ AppClose
                  \/ Ev.op = "close" /\ Ev.b = 1 /\ AppCloseF
               /\ wdue' = WReturned
               /\ wire' = (IF wpc' \in {"sending", "closeSending"} THEN "due" ELSE "none")
               /\ Logged /\ UNCHANGED <<rdue, creq, rawc>>
JRetDueR    == Is("AppRet") /\ Ev.op = "recv" /\ rdue /\ rlast = Ev.r
               /\ rdue' = FALSE /\ UNCHANGED vars /\ Logged /\ UNCHANGED <<wdue, wire, creq, rawc>>
JRetDueW    == Is("AppRet") /\ Ev.op # "recv" /\ wdue /\ wlast = Res(Ev.op, Ev.r)
               /\ wdue' = FALSE /\ UNCHANGED vars /\ Logged /\ UNCHANGED <<rdue, wire, creq, rawc>>
JRetRecv    == Is("AppRet") /\ ~rdue /\ Ev.op = "recv" /\ Ev.r >= 0       \* a pop, or the release of a pending
               /\ (RecvLoop \/ RecvWake) /\ RReturned /\ rlast' = Ev.r     \* receive because the pump task ended
               /\ Logged /\ UNCHANGED jx
JRetCancel  == Is("AppRet") /\ ~rdue /\ Ev.op = "recv" /\ Ev.r = CANCELLED /\ creq /\ ~rawc
               /\ CancelRecv /\ creq' = FALSE /\ Logged /\ UNCHANGED <<rdue, wdue, wire, rawc>>
JRetSend    == Is("AppRet") /\ ~wdue /\ Ev.op = "send" /\ Ev.r = OKR /\ wire = "done"
               /\ SendRet /\ wire' = "none" /\ Logged /\ UNCHANGED <<rdue, wdue, creq, rawc>>
JRetClose   == Is("AppRet") /\ ~wdue /\ Ev.op = "close" /\ Ev.r = OKR /\ Ev.p = 0 /\ ~pcancel /\ pull # "pump"
               /\ CloseFinish /\ wire' = "none" /\ Logged /\ UNCHANGED <<rdue, wdue, creq, rawc>>
JRetCloseF  == Is("AppRet") /\ ~wdue /\ Ev.op = "close" /\ Ev.r = SENDFAIL /\ wire = "done"    \* the refused close:
               /\ CloseSendFail /\ wire' = "none" /\ Logged /\ UNCHANGED <<rdue, wdue, creq, rawc>>   \* nothing else changed
JRespEnd    == Is("RespEnd") /\ ~rdue /\ ~wdue /\ RespEnd
               /\ wire' = (IF wpc' = "closeSending" THEN "due" ELSE "none")
               /\ Logged /\ UNCHANGED <<rdue, wdue, creq, rawc>>
JAppReturn  == Is("AppReturn") /\ Ev.r # ERR /\ Ev.p = 0 /\ Ev.o = 0 /\ AppReturn /\ PumpGone
               /\ Logged /\ UNCHANGED jx
JWireSend   == Is("SrvSend") /\ Ev.t = "send" /\ wpc = "sending" /\ wire = "due"
               /\ wire' = "done" /\ UNCHANGED vars /\ Logged /\ UNCHANGED <<rdue, wdue, creq, rawc>>
JWireClose  == Is("SrvSend") /\ Ev.t = "close" /\ wpc = "closeSending" /\ wire = "due"
               /\ wire' = "done" /\ UNCHANGED vars /\ Logged /\ UNCHANGED <<rdue, wdue, creq, rawc>>
JCancel     == Is("Cancel") /\ Waiting /\ ~rdue /\ ~creq
               /\ creq' = TRUE /\ UNCHANGED vars /\ Logged /\ UNCHANGED <<rdue, wdue, wire, rawc>>

(* ---------------- silent steps: inferred ---------------- *)
SilentEnabled ==
    \/ ~pcancel /\ ((ppc = "loop" /\ disc) \/ ppc = "checkSpace" \/ (ppc = "waitSpace" /\ putW = "set"))
    \/ pcancel /\ ppc \in Live /\ pull # "pump"
    \/ rpc = "recvLoop" /\ queue = <<>> /\ ~PumpEnded
    \/ rpc = "recvWait" /\ popW = "set"
    \/ wpc = "closeSending" /\ wire = "done" /\ ~cfail
    \/ apc = "ending" /\ wpc = "closing" /\ ~pcancel
SPumpDone   == Silent /\ disc /\ PumpLoop
SPumpCheck  == Silent /\ PumpCheck
SPumpWake   == Silent /\ PumpWake
SPumpCancel == Silent /\ pull # "pump" /\ PumpCancelled
SRecvWait   == Silent /\ rpc = "recvLoop" /\ queue = <<>> /\ ~PumpEnded /\ RecvLoop
SRecvWake   == Silent /\ rpc = "recvWait" /\ popW = "set" /\ RecvWake
SCloseSent  == Silent /\ wire = "done" /\ CloseSent     \* the server's send(close) returned; only now is the pump cancelled
SCloseFin   == Silent /\ apc = "ending" /\ CloseFinish  \* the framework's own close returned (no AppRet is logged for it)

(* ---------------- end of script: quiescence ---------------- *)
LegitWait == Waiting /\ Quiet /\ ~rdue /\ ~creq /\ queue = <<>> /\ avail = <<>> /\ inhand = NIL
EndVerdict ==
    IF rdue \/ wdue \/ wpc \in {"sending", "closeSending", "closing"} \/ (Waiting /\ ~LegitWait) \/ apc = "ending"
        THEN "P:left_waiting"
    ELSE IF wpc = "closed" /\ (Ev.p > 0 \/ pull = "pump" \/ (Ev.o > 0 /\ pull # "app")) THEN "P:left_running"
    ELSE IF ~Quiet THEN "D:pump_stalled"
    ELSE IF Ev.b > 0 THEN "D:busy_wait"
    ELSE IF (Ev.o > 0) # (pull # "none") THEN "H:outstanding"
    ELSE "ok"
JEnd   == Is("End") /\ ~SilentEnabled /\ verdict' = EndVerdict
          /\ l' = l + 1 /\ sil' = 0 /\ UNCHANGED <<vars, tid, jx>>
JFinal == Is("Final") /\ verdict' = (IF Ev.p > 0 \/ Ev.o > 0 THEN "P:left_running" ELSE "ok")
          /\ l' = l + 1 /\ sil' = 0 /\ UNCHANGED <<vars, tid, jx>>

LoggedNext == JArrive \/ JSrvFail \/ JPumpCall \/ JRawCall \/ JPumpGot \/ JRawGot \/ JPumpCancel \/ JRawCancel
              \/ JCallRecv \/ JCallWrite \/ JRetDueR \/ JRetDueW \/ JRetRecv \/ JRetCancel \/ JRetSend \/ JRetClose
              \/ JWireSend \/ JWireClose \/ JCancel \/ JEnd \/ JFinal \/ JRetCloseF \/ JRespEnd \/ JAppReturn
SilentNext == SPumpDone \/ SPumpCheck \/ SPumpWake \/ SPumpCancel \/ SRecvWait \/ SRecvWake \/ SCloseSent \/ SCloseFin

(* ---------------- the clause a stuck run reports ---------------- *)
NextMsg == Cardinality({i \in 1..Len(taken) : taken[i] # DISC}) + 1
Clause ==
    CASE Ev.e = "SrvRecvCall" ->
            IF mq = 0 THEN "P:pull_without_receive"
            ELSE IF wpc \in {"closing", "closed"} \/ ppc \in {"cancelled", "failed"} THEN "P:left_running"
            ELSE IF disc THEN "P:pull_after_disconnect"
            ELSE IF inhand # NIL THEN "P:bound"
            ELSE "P:pull"
      [] Ev.e = "SrvRecvRet" -> "H:server"
      [] Ev.e = "SrvRecvFail" -> "H:fault"
      [] Ev.e = "Arrive" -> "H:arrive"
      [] Ev.e = "AppCall" -> "H:appcall"
      [] Ev.e = "Cancel" -> "H:cancel"
      [] Ev.e = "SrvRecvCancel" ->     \* cancelling the pump BEFORE the wire close also satisfies the property: detail -
                                      \* unless the close event is refused (the connection stays accepted) and the
                                      \* application goes on receiving from a connection that has lost its reader
            IF wpc = "closeSending" /\ wire = "due" /\ pull = "pump"
                 /\ ~(cfail /\ \E j \in (l + 1)..Len(T.ev) : T.ev[j].e = "AppCall" /\ T.ev[j].op = "recv")
            THEN "D:close_order" ELSE "P:reader_cancelled"
      [] Ev.e = "SrvSend" ->
            IF Ev.t = "send" /\ wlast = Res("send", DISC) /\ wdue THEN "P:send_after_disconnect"
            ELSE "D:wire"
      [] Ev.e = "AppRet" /\ Ev.op = "recv" ->
            IF Ev.r = ERR THEN "P:recv_error"          \* an internal error reached the application from receive_*()
            ELSE IF Ev.r = CANCELLED THEN "H:cancelled"
            ELSE IF Ev.r = DISC THEN
                 (IF queue # <<>> /\ Head(queue) # DISC THEN "P:disconnect_before_messages" ELSE "P:recv_disconnect")
            ELSE IF Ev.r # NextMsg THEN "P:fifo"
            ELSE "P:recv"
      [] Ev.e = "AppRet" /\ Ev.op = "send" ->
            IF Ev.r = ERR THEN "P:send_error"
            ELSE IF Ev.r = DISC THEN "P:send_spurious_disconnect"
            ELSE IF wdue /\ wlast = Res("send", DISC) THEN "P:send_after_disconnect"
            ELSE "P:send"
      [] Ev.e = "AppRet" /\ Ev.op = "close" ->
            IF Ev.r = ERR THEN "P:close_error"
            ELSE IF Ev.r = SENDFAIL THEN "P:close_spurious_failure"     \* close() raised the server's error although
            ELSE "P:left_running"                                      \* no close event of it was refused
      [] Ev.e = "RespEnd" -> "H:respend"
      [] Ev.e = "AppReturn" ->
            IF apc # "ending" THEN "H:appreturn"
            ELSE IF Ev.r = ERR THEN "P:app_error"
            ELSE "P:left_running_after_app"
      [] Ev.e = "End" -> "H:silent_bound"
      [] OTHER -> "H:event"

Fail == /\ More /\ ~ENABLED LoggedNext /\ (~SilentEnabled \/ sil >= MaxSil)
        /\ verdict' = Clause
        /\ UNCHANGED <<vars, tid, l, sil, jx>>

Done == /\ l >= 1 /\ (l > Len(T.ev) \/ verdict # "ok")
        /\ PrintT(<<"VERDICT", tid, verdict, l - 1>>)
        /\ l' = -1 /\ UNCHANGED <<vars, tid, sil, verdict, jx>>

JNext == LoggedNext \/ SilentNext \/ Fail \/ Done
JSpec == JInit /\ [][JNext]_jvars
(* the inferred state always satisfies the design's invariants (else the judge itself is wrong) *)
Sound == Bounded /\ Fifo /\ Held /\ WaitersConsistent
=========================================================================
