---------------------------- MODULE Lifespan ----------------------------
(* C03, lifespan clause.  One application object may be taken through the lifespan protocol
   several times (a server re-entering the lifespan scope, several test-client contexts), and
   middleware may be added between two cycles.  In every cycle: on lifespan.startup the
   process_startup handlers of the components run in the order the components were added, on
   lifespan.shutdown the process_shutdown handlers run in reverse order; the first handler that
   raises is reported with one *.failed event and nothing runs after it; otherwise one *.complete
   event is sent after the last handler.  One action per handler call; what the handler does
   (ok / raise) is chosen when it is called. *)
EXTENDS Integers, Sequences, FiniteSets, TLC

CONSTANTS HandlerStacks,     \* set of initial component stacks: sequences of subsets of {"startup", "shutdown"}
          AddShapes,         \* shapes of components that may be added between cycles
          MaxAdds,           \* at most this many add_middleware calls
          MaxCycles          \* at most this many lifespan cycles on the one application object

VARIABLES hs,        \* the components' lifespan methods, in the order they were added
          phase,     \* "out" (no lifespan scope open) | "idle" | "startup" | "up" | "shutdown"
          i,         \* component index the framework stands at
          cycle,     \* number of the current (or last) cycle
          adds,      \* <<cycle count at the time, shape>> of every add_middleware between cycles
          sd,        \* per finished or running cycle: did the server send lifespan.shutdown
          calls,     \* observable: [site, c, act, cyc] records
          sent       \* observable: [ev, cyc] records of events sent to the server
vars == <<hs, phase, i, cycle, adds, sd, calls, sent>>
N == Len(hs)
Call(site, c, act) == [site |-> site, c |-> c, act |-> act, cyc |-> cycle]
Sent(ev) == [ev |-> ev, cyc |-> cycle]

Init == /\ hs \in HandlerStacks /\ phase = "out" /\ i = 0 /\ cycle = 0 /\ adds = <<>> /\ sd = <<>>
        /\ calls = <<>> /\ sent = <<>>

(* add_middleware (and the constructor argument) receives a SEQUENCE of components and appends them in order, "as if
   they had been appended to the original middleware list"; a single component is the sequence of one.  `call`
   numbers the add_middleware calls.  The container form of the argument (bare component, list, tuple, generator,
   iterator, map object, dict view) and cors_enable are environment dimensions this specification is independent
   of: the harness rotates them under every history. *)
NCalls == IF adds = <<>> THEN 0 ELSE adds[Len(adds)].call
AddMiddlewareSeq(ss) ==
    /\ phase = "out" /\ ss # <<>> /\ Len(adds) + Len(ss) <= MaxAdds
    /\ hs' = hs \o ss
    /\ adds' = adds \o [j \in 1..Len(ss) |-> [after |-> cycle, shape |-> ss[j], call |-> NCalls + 1]]
    /\ UNCHANGED <<phase, i, cycle, sd, calls, sent>>
AddMiddleware(s) == AddMiddlewareSeq(<<s>>)

Enter == /\ phase = "out" /\ cycle < MaxCycles
         /\ cycle' = cycle + 1 /\ phase' = "idle" /\ sd' = Append(sd, FALSE)
         /\ UNCHANGED <<hs, i, adds, calls, sent>>

RecvStartup == /\ phase = "idle" /\ phase' = "startup" /\ i' = 1 /\ UNCHANGED <<hs, cycle, adds, sd, calls, sent>>

StartupCall(act) ==
    /\ phase = "startup" /\ i <= N /\ "startup" \in hs[i]
    /\ calls' = Append(calls, Call("startup", i, act))
    /\ IF act = "ok" THEN i' = i + 1 /\ UNCHANGED <<phase, sent>>
       ELSE sent' = Append(sent, Sent("startup.failed")) /\ phase' = "out" /\ UNCHANGED i
    /\ UNCHANGED <<hs, cycle, adds, sd>>
StartupSkip == /\ phase = "startup" /\ i <= N /\ "startup" \notin hs[i] /\ i' = i + 1
               /\ UNCHANGED <<hs, phase, cycle, adds, sd, calls, sent>>
StartupDone == /\ phase = "startup" /\ i > N
               /\ sent' = Append(sent, Sent("startup.complete")) /\ phase' = "up"
               /\ UNCHANGED <<hs, i, cycle, adds, sd, calls>>

Abandon == /\ phase = "up" /\ phase' = "out"       \* the server goes away without lifespan.shutdown
           /\ UNCHANGED <<hs, i, cycle, adds, sd, calls, sent>>

RecvShutdown == /\ phase = "up" /\ phase' = "shutdown" /\ i' = N /\ sd' = [sd EXCEPT ![cycle] = TRUE]
                /\ UNCHANGED <<hs, cycle, adds, calls, sent>>

ShutdownCall(act) ==
    /\ phase = "shutdown" /\ i >= 1 /\ "shutdown" \in hs[i]
    /\ calls' = Append(calls, Call("shutdown", i, act))
    /\ IF act = "ok" THEN i' = i - 1 /\ UNCHANGED <<phase, sent>>
       ELSE sent' = Append(sent, Sent("shutdown.failed")) /\ phase' = "out" /\ UNCHANGED i
    /\ UNCHANGED <<hs, cycle, adds, sd>>
ShutdownSkip == /\ phase = "shutdown" /\ i >= 1 /\ "shutdown" \notin hs[i] /\ i' = i - 1
                /\ UNCHANGED <<hs, phase, cycle, adds, sd, calls, sent>>
ShutdownDone == /\ phase = "shutdown" /\ i < 1
                /\ sent' = Append(sent, Sent("shutdown.complete")) /\ phase' = "out"
                /\ UNCHANGED <<hs, i, cycle, adds, sd, calls>>

Next == (\E s \in AddShapes : AddMiddleware(s)) \/ Enter \/ RecvStartup
        \/ (\E a \in {"ok", "raise"} : StartupCall(a)) \/ StartupSkip \/ StartupDone \/ Abandon
        \/ RecvShutdown \/ (\E a \in {"ok", "raise"} : ShutdownCall(a)) \/ ShutdownSkip \/ ShutdownDone
Spec == Init /\ [][Next]_vars

(* ---- properties (every one per cycle) ---- *)
Ix == 1..Len(calls)
Of(site, k) == {j \in Ix : calls[j].site = site /\ calls[j].cyc = k}
SentIn(k) == SelectSeq(sent, LAMBDA e : e.cyc = k)
Evs(k) == [j \in 1..Len(SentIn(k)) |-> SentIn(k)[j].ev]
Cycles == 1..cycle
StartupInOrder   == \A k \in Cycles : \A a, b \in Of("startup", k) : a < b => calls[a].c < calls[b].c
ShutdownReversed == \A k \in Cycles : \A a, b \in Of("shutdown", k) : a < b => calls[a].c > calls[b].c
StartupBeforeShutdown == \A k \in Cycles : \A a \in Of("startup", k), b \in Of("shutdown", k) : a < b
CyclesInOrder == \A a, b \in Ix : a < b => calls[a].cyc <= calls[b].cyc
FirstFailureStops == \A j \in Ix : calls[j].act = "raise" =>
                        \A j2 \in Ix : j2 > j => calls[j2].cyc > calls[j].cyc
Raised(site, k) == \E j \in Of(site, k) : calls[j].act = "raise"
(* the components the application had when cycle k ran *)
NAt(k) == N - Cardinality({a \in 1..Len(adds) : adds[a].after >= k})
With(m, k) == {c \in 1..NAt(k) : m \in hs[c]}
EventsLegal == \A k \in Cycles :
    /\ Evs(k) \in {<<>>, <<"startup.complete">>, <<"startup.failed">>,
                   <<"startup.complete", "shutdown.complete">>, <<"startup.complete", "shutdown.failed">>}
    /\ (Len(Evs(k)) >= 1 /\ Evs(k)[1] = "startup.failed") = Raised("startup", k)
    /\ (Len(Evs(k)) >= 2 /\ Evs(k)[2] = "shutdown.failed") = Raised("shutdown", k)
CompleteMeansAllRan == \A k \in Cycles :
    /\ (Len(Evs(k)) >= 1 /\ Evs(k)[1] = "startup.complete")
          => {calls[j].c : j \in Of("startup", k)} = With("startup", k)
    /\ (Len(Evs(k)) >= 2 /\ Evs(k)[2] = "shutdown.complete")
          => {calls[j].c : j \in Of("shutdown", k)} = With("shutdown", k)
=========================================================================
