---------------------------- MODULE Lifespan ----------------------------
(* C03, lifespan clause: on lifespan.startup the process_startup handlers of the middleware
   components run in the order the components were added, on lifespan.shutdown the
   process_shutdown handlers run in reverse order; the first handler that raises is reported to
   the server with one *.failed event and nothing runs after it; otherwise one *.complete event
   is sent after the last handler.  One action per handler call; what the handler does (ok /
   raise) is chosen when it is called. *)
EXTENDS Integers, Sequences, FiniteSets, TLC

CONSTANTS HandlerStacks      \* set of sequences of subsets of {"startup", "shutdown"}

VARIABLES hs,        \* the components' lifespan methods
          phase,     \* "idle" | "startup" | "up" | "shutdown" | "down"
          i,         \* component index the framework stands at
          calls,     \* observable: <<site, component, act>> records
          sent       \* observable: events sent to the server
vars == <<hs, phase, i, calls, sent>>
N == Len(hs)
Call(site, c, act) == [site |-> site, c |-> c, act |-> act]

Init == /\ hs \in HandlerStacks /\ phase = "idle" /\ i = 0 /\ calls = <<>> /\ sent = <<>>

RecvStartup == /\ phase = "idle" /\ phase' = "startup" /\ i' = 1 /\ UNCHANGED <<hs, calls, sent>>

StartupCall(act) ==
    /\ phase = "startup" /\ i <= N /\ "startup" \in hs[i]
    /\ calls' = Append(calls, Call("startup", i, act))
    /\ IF act = "ok" THEN i' = i + 1 /\ UNCHANGED <<phase, sent>>
       ELSE sent' = Append(sent, "startup.failed") /\ phase' = "down" /\ UNCHANGED i
    /\ UNCHANGED hs
StartupSkip == /\ phase = "startup" /\ i <= N /\ "startup" \notin hs[i] /\ i' = i + 1
               /\ UNCHANGED <<hs, phase, calls, sent>>
StartupDone == /\ phase = "startup" /\ i > N
               /\ sent' = Append(sent, "startup.complete") /\ phase' = "up" /\ UNCHANGED <<hs, i, calls>>

RecvShutdown == /\ phase = "up" /\ phase' = "shutdown" /\ i' = N /\ UNCHANGED <<hs, calls, sent>>

ShutdownCall(act) ==
    /\ phase = "shutdown" /\ i >= 1 /\ "shutdown" \in hs[i]
    /\ calls' = Append(calls, Call("shutdown", i, act))
    /\ IF act = "ok" THEN i' = i - 1 /\ UNCHANGED <<phase, sent>>
       ELSE sent' = Append(sent, "shutdown.failed") /\ phase' = "down" /\ UNCHANGED i
    /\ UNCHANGED hs
ShutdownSkip == /\ phase = "shutdown" /\ i >= 1 /\ "shutdown" \notin hs[i] /\ i' = i - 1
                /\ UNCHANGED <<hs, phase, calls, sent>>
ShutdownDone == /\ phase = "shutdown" /\ i < 1
                /\ sent' = Append(sent, "shutdown.complete") /\ phase' = "down" /\ UNCHANGED <<hs, i, calls>>

Next == RecvStartup \/ (\E a \in {"ok", "raise"} : StartupCall(a)) \/ StartupSkip \/ StartupDone
        \/ RecvShutdown \/ (\E a \in {"ok", "raise"} : ShutdownCall(a)) \/ ShutdownSkip \/ ShutdownDone
Spec == Init /\ [][Next]_vars

(* ---- properties ---- *)
Ix == 1..Len(calls)
Of(site) == {k \in Ix : calls[k].site = site}
StartupInOrder   == \A j, k \in Of("startup") : j < k => calls[j].c < calls[k].c
ShutdownReversed == \A j, k \in Of("shutdown") : j < k => calls[j].c > calls[k].c
StartupBeforeShutdown == \A j \in Of("startup"), k \in Of("shutdown") : j < k
FirstFailureStops == \A k \in Ix : calls[k].act = "raise" => k = Len(calls) /\ phase = "down"
Raised(site) == \E k \in Of(site) : calls[k].act = "raise"
With(m) == {c \in 1..N : m \in hs[c]}
EventsLegal ==
    /\ sent \in {<<>>, <<"startup.complete">>, <<"startup.failed">>,
                 <<"startup.complete", "shutdown.complete">>, <<"startup.complete", "shutdown.failed">>}
    /\ (Len(sent) >= 1 /\ sent[1] = "startup.failed") = Raised("startup")
    /\ (Len(sent) >= 2 /\ sent[2] = "shutdown.failed") = Raised("shutdown")
CompleteMeansAllRan ==
    /\ (Len(sent) >= 1 /\ sent[1] = "startup.complete") => {calls[k].c : k \in Of("startup")} = With("startup")
    /\ (Len(sent) >= 2 /\ sent[2] = "shutdown.complete") => {calls[k].c : k \in Of("shutdown")} = With("shutdown")
=========================================================================
