#!/usr/bin/env python3
"""Writes seeded/INDEX.md: one line per confirmed seeded change with what it needs and which check clause caught it."""
import json, os, re
root = '/verif/seeded'
rows = []
for d in sorted(os.listdir(root), key=lambda s: (re.sub(r'\d+$', '', s), int(re.search(r'(\d+)$', s).group(1)) if re.search(r'(\d+)$', s) else 0)):
    p = os.path.join(root, d, 'meta.json')
    if not os.path.isfile(p):
        continue
    m = json.load(open(p))
    rows.append((d, (m.get('summary') or '').replace('\n', ' ').replace('|', '/')[:170],
                 (m.get('needs') or '').replace('\n', ' ').replace('|', '/')[:150],
                 (m.get('detected_by') or '').replace('|', '/')))
refs = sorted(os.listdir(os.path.join(root, 'refactorings'))) if os.path.isdir(os.path.join(root, 'refactorings')) else []
with open(os.path.join(root, 'INDEX.md'), 'w') as f:
    f.write('# Seeded changes\n\nEach directory holds `patch.diff`, `demo.py` (exits non-zero with the patch, 0 without; '
            '`SEED_ROOT=<checkout>`), `meta.json`.\nAll were produced by sub-agents that saw only the property text, and '
            'confirmed with `tools/confirm_seed.sh` (demo clean/patched, falcon\'s suite still green with the patch).\n'
            'Re-run: apply in a scratch worktree and `FALCON_ROOT=<worktree> ./check <ID>` (or `tools/try_seeds.sh`).\n\n')
    f.write('| seed | change | needs | detected by |\n|---|---|---|---|\n')
    for r in rows:
        f.write('| %s | %s | %s | %s |\n' % r)
    caught = sum(1 for r in rows if r[3] and not r[3].upper().startswith('MISSED') and not r[3].upper().startswith('NOT'))
    missed_first = sum(1 for r in rows if r[3].upper().startswith('MISSED'))
    f.write('\n%d seeds; %d caught by the check as it was when the seed arrived, %d missed at first and caught after the '
            'check was extended from a description of the regression (never from the patch), %d judged outside the statement.\n'
            % (len(rows), caught, missed_first, len(rows) - caught - missed_first))
    if refs:
        f.write('\n## Behaviour-preserving refactorings (must NOT alarm)\n\n')
        for d in refs:
            m = json.load(open(os.path.join(root, 'refactorings', d, 'meta.json')))
            f.write('* `refactorings/%s` — %s — %s\n' % (d, (m.get('summary') or '')[:200].replace('\n', ' '), m.get('ran', '')))
print(len(rows), 'seeds indexed')
