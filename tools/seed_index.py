#!/usr/bin/env python3
"""Writes seeded/INDEX.md: one line per confirmed seeded change with what it needs and which check clause caught it."""
import json, os, re
root = '/verif/seeded'
rows = []
for d in sorted(os.listdir(root), key=lambda s: (re.sub(r'\d+$', '', s), int(re.search(r'(\d+)$', s).group(1)) if re.search(r'(\d+)$', s) else 0)):
    p = os.path.join(root, d, 'meta.json')
    if not os.path.isfile(p):
        continue
    m = json.load(open(p))
    rows.append((d, (m.get('summary') or '').replace('\n', ' ').replace('|', '/')[:170],
                 (m.get('needs') or '').replace('\n', ' ').replace('|', '/')[:150],
                 (m.get('detected_by') or '').replace('|', '/')))
final = {}
for fn in sorted(os.listdir(root)):
    if fn.startswith('RESULTS') and fn.endswith('.md'):
        for line in open(os.path.join(root, fn)):
            c = [x.strip() for x in line.split('|')]
            if len(c) > 4 and re.match(r'C\d\d-\d+$', c[1]):
                final[c[1]] = 'exit %s %s' % (c[3], re.sub(r'\.\.\. \d+ violations in total, ', '', c[4])[:90])
rows = [r + (final.get(r[0], '(not run)'),) for r in rows]
refs = sorted(os.listdir(os.path.join(root, 'refactorings'))) if os.path.isdir(os.path.join(root, 'refactorings')) else []
with open(os.path.join(root, 'INDEX.md'), 'w') as f:
    f.write('# Seeded changes\n\nEach directory holds `patch.diff`, `demo.py` (exits non-zero with the patch, 0 without; '
            '`SEED_ROOT=<checkout>`), `meta.json`.\nAll were produced by sub-agents that saw only the property text, and '
            'confirmed with `tools/confirm_seed.sh` (demo clean/patched, falcon\'s suite still green with the patch).\n'
            'Re-run: apply in a scratch worktree and `FALCON_ROOT=<worktree> ./check <ID>` (or `tools/try_seeds.sh`).\n'
            'Demonstrations that locate the tree relative to their own path must be copied to `<worktree>/out/` first.\n'
            'The last column is the final run of every seed against the final checks (`tools/run_all_seeds.sh`, '
            '`RESULTS*.md`): exit 1 = reported.\n\n')
    f.write('| seed | change | needs | detected by (when it arrived) | final run |\n|---|---|---|---|---|\n')
    for r in rows:
        f.write('| %s | %s | %s | %s | %s |\n' % r)
    open_ = sum(1 for r in rows if 'not followed up' in r[3])
    caught = sum(1 for r in rows if r[3] and not r[3].upper().startswith('MISSED') and not r[3].upper().startswith('NOT') and not r[3].upper().startswith('OUTSIDE'))
    missed_first = sum(1 for r in rows if r[3].upper().startswith('MISSED')) - open_
    f.write('\n%d seeds; %d reported by the check as it was when the seed arrived, %d missed at first and reported after the '
            'check was extended from a description of the regression (never from the patch), %d missed in the last round and '
            'NOT followed up (they stay unreported: see the final-run column), %d judged outside the statement.\n'
            % (len(rows), caught, missed_first, open_, len(rows) - caught - missed_first - open_))
    if refs:
        f.write('\n## Behaviour-preserving refactorings (must NOT alarm)\n\n')
        for d in refs:
            m = json.load(open(os.path.join(root, 'refactorings', d, 'meta.json')))
            f.write('* `refactorings/%s` — %s — %s\n' % (d, (m.get('summary') or '')[:200].replace('\n', ' '), m.get('ran', '')))
print(len(rows), 'seeds indexed')
