#!/bin/sh
# usage: tools/run_all_seeds.sh [pattern]  - applies every seeded/<ID>-k/patch.diff in a scratch worktree of /repo and runs
# the owning check (quick) against it; writes seeded/RESULTS.md.  Seeds must give exit 1; refactorings must give exit 0.
V="$(cd "$(dirname "$0")/.." && pwd)"; PAT="${1:-}"; SUF="${2:-}"   # PAT is a shell case pattern, e.g. "C0[1-5]-*"
WT=$(mktemp -d /tmp/wt-allseeds-XXXX); rmdir "$WT"
git -C /repo worktree add --detach -q "$WT" HEAD || exit 2
OUT="$V/seeded/RESULTS$SUF.md"; echo "# Seed regression run ($(date -u +%Y-%m-%dT%H:%MZ), /repo $(git -C /repo log --format=%h -1))" > "$OUT"
echo "" >> "$OUT"; echo "| seed | expected | exit | result |" >> "$OUT"; echo "|---|---|---|---|" >> "$OUT"
for d in "$V"/seeded/C*-*; do
  s=$(basename "$d"); case "$s" in $PAT*) ;; *) continue;; esac
  id=${s%%-*}
  (cd "$WT" && git checkout -q -- . && git apply "$d/patch.diff" 2>/dev/null) || { echo "| $s | exit 1 | - | patch does not apply any more (code moved on) |" >> "$OUT"; continue; }
  (cd "$V" && FALCON_ROOT="$WT" timeout 3000 ./check "$id" --tier quick > /tmp/allseeds$SUF.log 2>&1); rc=$?
  echo "| $s | exit 1 | $rc | $(grep -o 'violations=[0-9]* known=[0-9]* details=[0-9]*' /tmp/allseeds$SUF.log | tail -n 1) $(grep 'by clause' /tmp/allseeds$SUF.log | tail -n 1 | cut -c1-120) |" >> "$OUT"
done
(cd "$WT" && git checkout -q -- .)
git -C /repo worktree remove --force "$WT"
grep -c "| exit 1 | 1 |" "$OUT"
