#!/bin/sh
# usage: tools/repo_tests.sh [source|binary] [root]   - run falcon's own suite (guard off)
MODE="${1:-source}"; ROOT="${2:-/repo}"
cd "$ROOT" || exit 2
if [ "$MODE" = source ]; then
  export PYTHONPATH=/verif/tools/srcmode PYTHONDONTWRITEBYTECODE=1 FALCON_ROOT="$ROOT"
fi
exec /venv/bin/python -m pytest -q -p no:cacheprovider --timeout=900 --continue-on-collection-errors -n 12 tests 2>&1 | tail -n 15
