#!/bin/sh
# usage: tools/try_seeds.sh <PID> <worktree> [tier]  - runs ./check PID against each out/patchK.diff applied in the worktree
PID="$1"; WT="$2"; TIER="${3:-quick}"
cd "$WT" || exit 2
for p in out/patch*.diff; do
  k=$(echo "$p" | sed 's/[^0-9]//g')
  git checkout -q -- . && git apply "$p" || { echo "patch $k does not apply"; continue; }
  (cd /verif && FALCON_ROOT="$WT" timeout 3000 ./check "$PID" --tier "$TIER" > /tmp/try_${PID}_$k.log 2>&1; echo "EXIT $?" >> /tmp/try_${PID}_$k.log)
  echo "== $PID patch$k: $(tail -n 1 /tmp/try_${PID}_$k.log)"
  grep -v "^NOTE\|^\[" /tmp/try_${PID}_$k.log | tail -n 4 | head -n 3 | cut -c1-260
done
git checkout -q -- .
