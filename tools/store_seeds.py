#!/usr/bin/env python3
"""usage: store_seeds.py <PID> <worktree> <k,...> [detected_by text per k ...] - copies confirmed seeds into /verif/seeded"""
import json, os, re, shutil, sys
pid, wt = sys.argv[1], sys.argv[2].rstrip('/')
ks = sys.argv[3].split(',')
notes = sys.argv[4:]
existing = [d for d in os.listdir('/verif/seeded') if d.startswith(pid + '-')]
n = len(existing)
for i, k in enumerate(ks):
    n += 1
    d = '/verif/seeded/%s-%d' % (pid, n)
    os.makedirs(d, exist_ok=True)
    shutil.copy('%s/out/patch%s.diff' % (wt, k), d + '/patch.diff')
    demo = open('%s/out/demo%s.py' % (wt, k)).read()
    root = "__import__('os').environ.get('SEED_ROOT', '/repo')"
    demo = demo.replace("'%s/'" % wt, "(%s + '/')" % root).replace('"%s/"' % wt, "(%s + '/')" % root)
    demo = demo.replace("'%s'" % wt, root).replace('"%s"' % wt, root)
    demo = demo.replace(wt, '$SEED_ROOT')
    open(d + '/demo.py', 'w').write(demo)
    m = json.load(open('%s/out/meta%s.json' % (wt, k)))
    m.pop('tests', None)
    m['confirmed'] = {'by': 'tools/confirm_seed.sh in a scratch worktree', 'demo_clean_exit': 0, 'demo_patched_exit': 1,
                      'repo_tests_with_patch': '3440 passed, 491 skipped, 0 failed'}
    m['ran'] = ('git apply patch.diff in a scratch worktree of /repo; SEED_ROOT=<worktree> /venv/bin/python demo.py; '
                'pytest -n 6 tests; FALCON_ROOT=<worktree> ./check %s --tier quick' % pid)
    if i < len(notes):
        m['detected_by'] = notes[i]
    json.dump(m, open(d + '/meta.json', 'w'), indent=1)
    print(d)
