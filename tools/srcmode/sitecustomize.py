# Loaded via PYTHONPATH: makes every interpreter (incl. pytest-xdist workers) import falcon from
# the .py sources of $FALCON_ROOT instead of the stale cythonized .so files next to them.
import os
import sys
sys.path.insert(0, os.path.dirname(os.path.dirname(os.path.dirname(os.path.abspath(__file__)))))
import engine.srcimport  # noqa: E402,F401
