#!/bin/sh
# usage: tools/run_refactorings.sh [pattern]  - applies every seeded/refactorings/<rf>/patch.diff in a scratch worktree of
# /repo and runs (quick) every check whose property is anchored in a touched file, plus C19 (its wide leg traces every
# falcon module).  A behaviour-preserving refactoring must give exit 0, 0 violations, 0 details.  Writes
# seeded/REFACTORINGS${2}.md and prints the number of runs that did NOT come out clean.
V="$(cd "$(dirname "$0")/.." && pwd)"; PAT="${1:-}"; SUF="${2:-}"
WT=$(mktemp -d /tmp/wt-rf-XXXX); rmdir "$WT"
git -C /repo worktree add --detach -q "$WT" HEAD || exit 2
OUT="$V/seeded/REFACTORINGS$SUF.md"
echo "# Refactoring (false-alarm) run ($(date -u +%Y-%m-%dT%H:%MZ), /repo $(git -C /repo log --format=%h -1))" > "$OUT"
echo "" >> "$OUT"; echo "| refactoring | check | exit | counts |" >> "$OUT"; echo "|---|---|---|---|" >> "$OUT"
for d in "$V"/seeded/refactorings/rf*; do
  s=$(basename "$d"); case "$s" in *"$PAT"*) ;; *) continue;; esac
  IDS=$(python3 - "$d" <<'EOF'
import json, sys
props = [json.loads(l) for l in open('/verif/properties.jsonl')]
files = set(json.load(open(sys.argv[1] + '/meta.json'))['files'])
ids = sorted(p['id'] for p in props if set(p['anchors']['files']) & files)
if 'C19' not in ids:
    ids.append('C19')
print(' '.join(ids))
EOF
)
  (cd "$WT" && git checkout -q -- . && git apply "$d/patch.diff") || { echo "| $s | - | - | patch does not apply any more |" >> "$OUT"; continue; }
  for id in $IDS; do
    (cd "$V" && FALCON_ROOT="$WT" timeout 3000 ./check "$id" --tier quick > /tmp/rf$SUF.log 2>&1); rc=$?
    echo "| $s | $id | $rc | $(grep -o 'violations=[0-9]* known=[0-9]* details=[0-9]*' /tmp/rf$SUF.log | tail -n 1) |" >> "$OUT"
  done
done
(cd "$WT" && git checkout -q -- .)
git -C /repo worktree remove --force "$WT"
grep "^| rf" "$OUT" | grep -vc "| 0 | violations=0 known=0 details=0 |"
