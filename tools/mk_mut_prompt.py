#!/usr/bin/env python3
"""usage: mk_mut_prompt.py <PID> <tag> [n] [extra hint]  -> creates worktree /tmp/wt/<pid><tag> and /tmp/mutprompts/<PID><tag>.md"""
import json, os, subprocess, sys
pid, tag = sys.argv[1], sys.argv[2]
n = sys.argv[3] if len(sys.argv) > 3 else '3'
hint = sys.argv[4] if len(sys.argv) > 4 else ''
props = {json.loads(l)['id']: json.loads(l) for l in open('/verif/properties.jsonl')}
p = props[pid]
wt = '/tmp/wt/%s%s' % (pid.lower(), tag)
T = open('/verif/.tasks/mutant_template.md' if __import__('os').path.exists('/verif/.tasks/mutant_template.md') else '/verif/tools/briefs/mutant_template.md').read()
files = ', '.join(f for f in p['anchors']['files'] if not f.endswith('.pyx'))
s = (T.replace('{WT}', wt).replace('{TITLE}', p['title']).replace('{STATEMENT}', p['statement'])
     .replace('{QUANT}', p['quantifier']['text']).replace('{FILES}', files).replace('{N}', n).replace('{ID}', pid))
s = s.replace('do not look at or touch /repo or /verif', 'do not look at or touch /repo, /verif or /tmp/mutprompts')
if hint:
    s = s.replace('Prefer changes in different functions/mechanisms from one another.',
                  'Prefer changes in different functions/mechanisms from one another. ' + hint)
s += ('\n\nNotes: only the pure-Python modules run in this worktree (Cython extensions are absent; leave .pyx files alone). '
      'The machine is busy: the test suite may take several minutes; always use the timeout shown. '
      'Make demos deterministic (no reliance on timing/races: force interleavings or faults explicitly).\n')
os.makedirs('/tmp/mutprompts', exist_ok=True)
open('/tmp/mutprompts/%s%s.md' % (pid, tag), 'w').write(s)
if not os.path.isdir(wt):
    subprocess.check_call(['git', '-C', '/repo', 'worktree', 'add', '--detach', '-q', wt, 'HEAD'])
os.makedirs(wt + '/out', exist_ok=True)
print(wt)
