#!/usr/bin/env python3
"""Regenerates /verif/MANIFEST.json from the META dict of every checks/cNN.py."""
import importlib
import json
import os
import sys

VERIF = os.path.dirname(os.path.dirname(os.path.abspath(__file__)))
sys.path.insert(0, VERIF)

# properties whose check is complete, green on the unchanged tree and reviewed by the lead
CLAIMED = ['C01', 'C02', 'C03', 'C04', 'C05', 'C06', 'C07', 'C08', 'C09', 'C10', 'C11', 'C12', 'C13', 'C14', 'C15', 'C16', 'C17', 'C18', 'C19', 'C20']

NOT_APPLICABLE = {
}


def main():
    checks = []
    claimed = set()
    for fn in sorted(os.listdir(os.path.join(VERIF, 'checks'))):
        if not (fn.startswith('c') and fn.endswith('.py')):
            continue
        src = open(os.path.join(VERIF, 'checks', fn)).read()
        if 'META = ' not in src:
            continue
        ns = {}
        start = src.index('META = ')
        # META is a literal dict placed before any import of falcon
        exec(compile(src[start:src.index('\n}\n', start) + 3], fn, 'exec'), ns)
        m = ns['META']
        pid = m['property_id']
        if pid not in CLAIMED:
            continue
        claimed.add(pid)
        checks.append({
            'property_id': pid,
            'quick_cmd': './check %s --tier quick' % pid,
            'thorough_cmd': './check %s --tier thorough' % pid,
            'evidence_file': '/verif/evidence/%s.json' % pid,
            'replay_cmd_template': './check %s --replay {path}' % pid,
            'engine': 'tlc-conformance',
            'level_claimed': {'category': 'model_checking', 'text': m['level_text'], 'design_ref': m['design_ref']},
            'level_note': m['level_note'],
            'technique': m['technique'],
        })
    props = [json.loads(l)['id'] for l in open(os.path.join(VERIF, 'properties.jsonl'))]
    na = []
    for pid in props:
        if pid not in claimed:
            na.append({'property_id': pid, 'reason': NOT_APPLICABLE.get(
                pid, 'not claimed yet: the TLA+ specification and its conformance harness for this property are '
                     'not built/green in this revision (see DESIGN.md section 9 for status)')})
    man = {
        'version': 1,
        'setup_cmd': 'true',
        'hooks': {
            'guard': 'FALCON_VERIF',
            'enable': 'no hooks are compiled in: checks import /repo/falcon from source through engine/srcimport.py '
                      '(FALCON_ROOT=/repo); FALCON_VERIF=1 is reserved for add-only emit points',
            'baseline_off_cmd': 'cd /repo && /venv/bin/python -m pytest -ra -q -p no:cacheprovider --timeout=900 '
                                '--continue-on-collection-errors',
            'source_commits': [],
            'add_only': True,
        },
        'engines': [{
            'name': 'tlc-conformance',
            'path': '/verif/engine',
            'serves_properties': sorted(claimed),
            'kind_free_text': 'explicit TLA+ specifications under /verif/spec model-checked with TLC 1.8; bound to '
                              'the code by replaying TLC-generated behaviours into the real objects and by judging '
                              'traces recorded from the real objects with *Trace.tla modules',
        }],
        'checks': checks,
        'not_applicable': na,
        'notes': 'All checks import falcon from the .py sources of /repo (stale cythonized .so files next to them are '
                 'ignored). Exit 0 = held, 1 = VIOLATION line printed, 2 = machinery failure. Additional non-property '
                 'check (growth path, DESIGN.md 9.8): ./check G01 judges every request falcon\'s own test suite makes '
                 'against the C02/C05/C15 specifications.',
    }
    with open(os.path.join(VERIF, 'MANIFEST.json'), 'w') as f:
        json.dump(man, f, indent=1)
    print('MANIFEST.json: %d checks, %d not claimed' % (len(checks), len(na)))


if __name__ == '__main__':
    main()
