#!/bin/sh
# usage: tools/confirm_seed.sh <worktree> <patch.diff> <demo.py> [notests]
# Confirms a seeded change: demo passes on the clean tree, fails with the patch, the repo suite still passes with it.
WT="$1"; PATCH="$(realpath "$2")"; DEMO="$(realpath "$3")"
cd "$WT" || exit 2
git checkout -q -- . || exit 2
/venv/bin/python "$DEMO" >/dev/null 2>&1; CLEAN=$?
git apply "$PATCH" || { echo "patch does not apply"; exit 2; }
/venv/bin/python "$DEMO" >/dev/null 2>&1; MUT=$?
if [ "$4" != notests ]; then
  T=$(timeout 1800 /venv/bin/python -m pytest -q -p no:cacheprovider --continue-on-collection-errors --timeout=900 -n 6 tests 2>&1 | tail -n 1)
else T="(tests not run)"; fi
git checkout -q -- .
echo "demo_clean_exit=$CLEAN demo_patched_exit=$MUT tests: $T"
case "$T" in *failed*) exit 1;; esac
[ "$CLEAN" = 0 ] && [ "$MUT" != 0 ]
