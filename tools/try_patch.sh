#!/bin/sh
# usage: tools/try_patch.sh <worktree> <patch.diff> <ID> [<ID> ...]  - runs several checks against ONE patch applied in the worktree
WT="$1"; PATCH="$(realpath "$2")"; shift 2
cd "$WT" || exit 2
git checkout -q -- . && git apply "$PATCH" || { echo "patch does not apply"; exit 2; }
for PID in "$@"; do
  (cd /verif && FALCON_ROOT="$WT" timeout 3000 ./check "$PID" --tier quick > /tmp/tp_${PID}_$$.log 2>&1; echo "EXIT $?" >> /tmp/tp_${PID}_$$.log)
  echo "$PID: $(tail -n 1 /tmp/tp_${PID}_$$.log) $(grep -o 'violations=[0-9]* known=[0-9]* details=[0-9]*' /tmp/tp_${PID}_$$.log | tail -n 1)"
done
git checkout -q -- .
