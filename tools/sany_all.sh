#!/bin/sh
# usage: tools/sany_all.sh  - parses every module under spec/ with SANY; prints the modules that fail (exit 1 if any)
cd "$(dirname "$0")/../spec" || exit 2
bad=0
for f in *.tla; do
  if ! tla-sany "$f" > /tmp/sany_one.log 2>&1 || grep -q "Semantic errors\|Parse Error\|Could not parse\|Fatal errors" /tmp/sany_one.log; then echo "SANY FAIL $f"; bad=1; fi
done
rm -f /tmp/sany_one.log
exit $bad
