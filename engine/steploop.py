"""Stepped asyncio harness: deterministic interleavings of real coroutines without a wall clock.

asyncio runs callbacks from one FIFO ready queue, so once the order of the *external stimuli*
(a server event becomes available, the application is allowed to start its next call, a pending
call is cancelled, "let the loop run one pass") is fixed, the interleaving of all tasks is fixed.
The pieces here let a harness choose that order:

  Stepper        a private event loop reused for many cases; run(coro) -> result, reports leftovers
  passes(k)      controller side: let every ready callback run, k times (one pass = one sleep(0))
  settle()       controller side: run passes until nothing but the controller is runnable
  Gates          futures a generated responder awaits before each scripted call
  WsServer       fake ASGI WebSocket server: receive()/send() with a boundary log, two receive()
                 variants ('immediate': returns at once when an event is available, like
                 asyncio.Queue.get; 'suspend': always yields to the loop once first) and the same
                 two variants for send(); arrive() makes the next client event available
  ws_scope()     an ASGI websocket scope

Nothing in here knows about falcon.  It is an independent reading of the ASGI WebSocket spec.
"""
import asyncio


class Stepper:
    """One private event loop for many cases (creating a loop per case costs a socketpair)."""

    def __init__(self):
        self.loop = asyncio.new_event_loop()
        self.leftover = 0

    def run(self, coro):
        """Run `coro` to completion.  Tasks still pending afterwards are cancelled and counted
        in self.leftover (a case that wants to *observe* pending tasks does so itself with
        pending_tasks() before returning)."""
        loop = self.loop
        try:
            return loop.run_until_complete(coro)
        finally:
            left = [t for t in asyncio.all_tasks(loop) if not t.done()]
            self.leftover = len(left)
            if left:
                for t in left:
                    t.cancel()
                loop.run_until_complete(asyncio.gather(*left, return_exceptions=True))

    def close(self):
        self.loop.close()


async def passes(k=1):
    """Let the loop run k passes: every callback that is ready now runs once before we resume."""
    for _ in range(k):
        await asyncio.sleep(0)


def _ready_queue(loop):
    r = getattr(loop, '_ready', None)
    try:
        len(r)
    except TypeError:
        return None
    return r


async def settle(activity=None, quiet=12, limit=100000):
    """Run passes until the system is quiescent; returns the number of passes used.

    Exact when the loop exposes its ready queue (CPython's BaseEventLoop._ready): when the
    controller is resumed and the queue is empty, no other callback is runnable and - there being
    no timers or I/O in a stepped run - nothing will become runnable by itself.  Fallback (a loop
    without that attribute): `quiet` consecutive passes during which activity() did not change."""
    loop = asyncio.get_running_loop()
    ready = _ready_queue(loop)
    n = 0
    if ready is not None:
        while n < limit:
            await asyncio.sleep(0)
            n += 1
            if not ready:
                return n
        raise RuntimeError('settle(): no quiescence within %d passes' % limit)
    still = 0
    last = activity() if activity else None
    while n < limit:
        await asyncio.sleep(0)
        n += 1
        cur = activity() if activity else None
        still = still + 1 if cur == last else 0
        last = cur
        if still >= quiet:
            return n
    raise RuntimeError('settle(): no quiescence within %d passes' % limit)


def pending_tasks(known=()):
    """Tasks of the running loop that are not finished and not in `known` (nor the caller)."""
    me = asyncio.current_task()
    ks = set(id(t) for t in known if t is not None)
    return [t for t in asyncio.all_tasks() if t is not me and not t.done() and id(t) not in ks]


class Gates:
    """gate(i) is awaited by the scripted responder before its i-th call; open_next() lets it go."""

    def __init__(self, n):
        loop = asyncio.get_running_loop()
        self.futs = [loop.create_future() for _ in range(n)]
        self.opened = 0

    def gate(self, i):
        return self.futs[i]

    def open_next(self):
        if self.opened < len(self.futs):
            self.futs[self.opened].set_result(None)
            self.opened += 1
            return True
        return False

    def open_all(self):
        while self.open_next():
            pass


def ws_scope(path='/', spec_version='2.3', subprotocols=(), headers=(), extra=None):
    sc = {
        'type': 'websocket',
        'asgi': {'version': '3.0', 'spec_version': spec_version},
        'http_version': '1.1',
        'scheme': 'ws',
        'path': path,
        'raw_path': path.encode('ascii'),
        'query_string': b'',
        'root_path': '',
        'headers': [(k.lower().encode('latin-1'), v.encode('latin-1')) for k, v in headers],
        'client': ('127.0.0.1', 50000),
        'server': ('127.0.0.1', 8000),
        'subprotocols': list(subprotocols),
    }
    if extra:
        sc.update(extra)
    return sc


class SendRefused(RuntimeError):
    """raised by WsServer.send() for a close event it was told to refuse (transient server error)"""


class WsServer:
    """Fake ASGI WebSocket server end.

    client_events   the ASGI events the client will cause, in order (websocket.receive ...,
                    optionally a final websocket.disconnect); none is visible to receive() before
                    arrive() was called for it
    log             list shared with the harness; one dict per boundary event:
                      {'e': 'Arrive', 'm': label}          arrive() made an event available
                      {'e': 'SrvRecvCall'}                  the application side called receive()
                      {'e': 'SrvRecvRet', 'm': label}       receive() returned that event
                      {'e': 'SrvRecvCancel'}                an outstanding receive() was cancelled
                      {'e': 'SrvRecvFail'}                  receive() raised OSError (after fail())
                      {'e': 'SrvSend', 't': kind, 'ev': event}   send(event) was called
    label(event)    projection of an event for the log (default: its type)
    recv_mode       'immediate' | 'suspend'   (see module doc)
    send_mode       'immediate' | 'suspend'
    refuse_close    set to True by the harness: the next websocket.close handed to send() is logged and
                    then refused - send() raises SendRefused - once (the flag is cleared)
    The initial websocket.connect is answered without logging.  A cancelled receive() consumes
    nothing.  After the last client event receive() suspends for ever, as a real server does while
    the peer is silent."""

    def __init__(self, log, client_events, label=None, recv_mode='immediate', send_mode='immediate'):
        self.log = log
        self.future = list(client_events)
        self.avail = []
        self.label = label or (lambda ev: ev['type'])
        self.recv_mode = recv_mode
        self.send_mode = send_mode
        self.connected = False
        self.waiter = None
        self.failed = False        # fail() was called: receive() raises from now on
        self.outstanding = 0       # receive() calls issued and not yet returned/cancelled
        self.calls = 0             # receive() calls after the connect event
        self.sent = []
        self.refuse_close = False  # the next websocket.close event is refused (send() raises), once

    def arrive(self):
        """The next client event becomes available at the server.  Returns False if none is left."""
        if not self.future:
            return False
        ev = self.future.pop(0)
        self.avail.append(ev)
        self.log.append({'e': 'Arrive', 'm': self.label(ev)})
        w = self.waiter
        if w is not None and not w.done():
            w.set_result(None)
        return True

    def fail(self):
        """The server breaks: the outstanding receive() (or else the next one) raises OSError."""
        self.failed = True
        w = self.waiter
        if w is not None and not w.done():
            w.set_result(None)

    async def receive(self):
        if not self.connected:
            self.connected = True
            return {'type': 'websocket.connect'}
        self.calls += 1
        self.outstanding += 1
        self.log.append({'e': 'SrvRecvCall'})
        try:
            if self.recv_mode == 'suspend':
                await asyncio.sleep(0)
            while not self.avail and not self.failed:
                self.waiter = asyncio.get_running_loop().create_future()
                try:
                    await self.waiter
                finally:
                    self.waiter = None
        except asyncio.CancelledError:
            self.outstanding -= 1
            self.log.append({'e': 'SrvRecvCancel'})
            raise
        if self.failed:
            self.outstanding -= 1
            self.log.append({'e': 'SrvRecvFail'})
            raise OSError('server receive() failed (injected)')
        ev = self.avail.pop(0)
        self.outstanding -= 1
        self.log.append({'e': 'SrvRecvRet', 'm': self.label(ev)})
        return ev

    async def send(self, ev):
        t = ev.get('type', '?') if isinstance(ev, dict) else '?'
        self.log.append({'e': 'SrvSend', 't': t.split('.')[-1], 'ev': ev})
        refuse = self.refuse_close and t == 'websocket.close'
        if refuse:
            self.refuse_close = False
        else:
            self.sent.append(ev)
        if self.send_mode == 'suspend':
            await asyncio.sleep(0)
        if refuse:
            raise SendRefused('server send() refused the close event (injected)')
