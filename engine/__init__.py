"""Verification engine: source importer, TLC runner, trace judge, evidence, findings."""
