"""Byte sources with controllable chunking, shared by C07 / C13 / C14 harnesses."""
import itertools


def compositions(n, max_parts=None):
    """All ways to cut n bytes into non-empty consecutive parts (as tuples of lengths)."""
    if n == 0:
        yield ()
        return
    for k in range(0, n):
        for cuts in itertools.combinations(range(1, n), k):
            if max_parts is not None and k + 1 > max_parts:
                continue
            b = (0,) + cuts + (n,)
            yield tuple(b[i + 1] - b[i] for i in range(len(b) - 1))


def split(data, lens):
    out, p = [], 0
    for k in lens:
        out.append(data[p:p + k])
        p += k
    if p < len(data):
        out.append(data[p:])
    return out


def with_empties(chunks, where):
    """Insert empty chunks at the listed positions (indices into the result)."""
    out = list(chunks)
    for i in sorted(where):
        out.insert(min(i, len(out)), b'')
    return out


class SyncSource:
    """read(n) callable over `data`; the k-th call returns at most caps[k % len(caps)] bytes
    (short reads).  `extra` bytes follow the data, so that an over-read is visible."""

    def __init__(self, data, caps, extra=b''):
        self.buf = data + extra
        self.n = len(data)
        self.caps = caps or [1 << 30]
        self.pos = 0
        self.calls = 0
        self.asked = []
        self.bounds = set()

    def __call__(self, n=-1):
        cap = self.caps[self.calls % len(self.caps)]
        self.calls += 1
        self.asked.append(n)
        if n is None or n < 0:
            n = len(self.buf) - self.pos
        r = self.buf[self.pos:self.pos + min(n, cap)]
        self.pos += len(r)
        self.bounds.add(self.pos)
        return r

    read = __call__


def drive(coro):
    """Run a coroutine that never really suspends (all awaits complete immediately)."""
    try:
        coro.send(None)
    except StopIteration as e:
        return e.value
    coro.close()
    raise RuntimeError('coroutine suspended unexpectedly')


class AsyncSource:
    """Async iterator over a fixed list of chunks; records how much was handed out."""

    def __init__(self, chunks):
        self.chunks = list(chunks)
        self.i = 0
        self.pos = 0
        self.bounds = set()

    def __aiter__(self):
        return self

    async def __anext__(self):
        if self.i >= len(self.chunks):
            raise StopAsyncIteration
        c = self.chunks[self.i]
        self.i += 1
        self.pos += len(c)
        self.bounds.add(self.pos)
        return c


class Hang(Exception):
    """The code under test did not return within the watchdog interval."""


_GC = {'t': 0.0, 't0': 0.0}


def _gc_cb(phase, info):
    import time
    if phase == 'start':
        _GC['t0'] = time.process_time()
    else:
        _GC['t'] += time.process_time() - _GC['t0']


def _install_gc_clock():
    import gc
    if _gc_cb not in gc.callbacks:
        gc.callbacks.append(_gc_cb)


class watchdog:
    """SIGALRM-based guard against non-termination in pure-Python code under test.

    The budget is CPU time spent by this process OUTSIDE the cyclic garbage collector: a wall-clock
    alarm that fires while the process was starved of CPU (other checks and TLC runs share the box)
    or while a long gen-2 collection ran (harnesses keep millions of recorded events alive) is
    re-armed instead of being reported - a flaky "hang" would discredit every real one.  An absolute
    wall-clock cap of 30x the budget still ends a thread that blocks without burning CPU."""

    def __init__(self, seconds=2.0):
        self.seconds = seconds

    def _fire(self, signum, frame):
        import signal
        import time
        used = (time.process_time() - self.cpu0) - (_GC['t'] - self.gc0)
        wall = time.time() - self.wall0
        if used < self.seconds and wall < 30 * self.seconds:
            signal.setitimer(signal.ITIMER_REAL, max(0.05, self.seconds - used))
            return
        raise Hang('no return within %.1fs of CPU time (%.1fs wall)' % (self.seconds, wall))

    def __enter__(self):
        import signal
        import time
        _install_gc_clock()
        self.cpu0 = time.process_time()
        self.gc0 = _GC['t']
        self.wall0 = time.time()
        self._old = signal.signal(signal.SIGALRM, self._fire)
        signal.setitimer(signal.ITIMER_REAL, self.seconds)
        return self

    def __exit__(self, *a):
        import signal
        signal.setitimer(signal.ITIMER_REAL, 0)
        signal.signal(signal.SIGALRM, self._old)
        return False
