"""Suite recorder: a pytest plugin that records every HTTP request falcon's own test suite makes.

Loaded with ``-p engine.suite_recorder`` (PYTHONPATH=/verif/tools/srcmode puts /verif on sys.path and
installs the source-only importer); nothing in /repo is changed.  While the suite runs it wraps

    falcon.App.__call__ / falcon.asgi.App.__call__ (HTTP scopes only)   the exchange itself
    falcon.App._get_responder                                           who was picked, for which (method, path)
    falcon.App._get_body                                                WSGI: the response just before rendering
    falcon.App._handle_exception / falcon.asgi.App._handle_exception    how many exceptions were handled
    falcon.Response._wsgi_headers / falcon.asgi.Response._asgi_headers  the response at the moment of emission
    falcon.App.add_route / add_sink / add_static_route / add_middleware / add_error_handler /
        set_error_serializer                                            assembly order, configuration version

and writes one JSON line per exchange (kind "x") and per distinct app configuration (kind "app",
obtained with the parts of falcon.inspect.inspect_app, cached per app object and configuration version) to the
file named by $SUITE_RECORD_FILE (O_APPEND, one write per line, shared by the xdist workers).

The recorder decides nothing.  It copies what passes through, *typed* (so that the judge side can
rebuild the very objects the server received and run the independent protocol monitors of
engine/drivers.py on them), and never touches application objects beyond attribute reads:

    str -> JSON string      bytes -> {"b": latin-1 text}      tuple -> {"t": [..]}      list -> [..]
    int / bool / None -> themselves      anything else -> {"o": type name}

Every wrapper is transparent: same arguments, same return value / exception, same awaits.  The one
visible difference: a WSGI result that is not a list/tuple (a response stream) is handed to the server
inside a forwarding proxy that notes the blocks as the server takes them and the close() call.
"""
import contextvars
import functools
import hashlib
import json
import os
import sys

ENV = 'SUITE_RECORD_FILE'

_CUR = contextvars.ContextVar('suite_recorder_exchange', default=None)
_FD = [None]
_NODE = ['']
_APPS = {}          # id(app) -> {'app': app, 'ver': int, 'key': (ver, cfgkey), 'asm': [...], 'stamps': {id(entry): seq}}
_PENDING = {}       # id(rec) -> rec: exchanges whose WSGI iterable has not been closed / exhausted yet
_SEQ = [0]
_INSTALLED = [False]
_UNSET = [None]     # falcon.response._UNSET
_RENDERERS = []     # falcon's own render_body functions


# ------------------------------------------------------------------------------------------------
# typed copies
# ------------------------------------------------------------------------------------------------

def enc(x, depth=0):
    if x is None or x is True or x is False:
        return x
    t = type(x)
    if t is str:
        return x
    if t is int:
        return x if -(2 ** 53) < x < 2 ** 53 else {'o': 'int', 'r': str(x)[:40]}
    if t is bytes:
        return {'b': x.decode('latin-1')}
    if depth > 4:
        return {'o': t.__name__}
    if t is tuple:
        return {'t': [enc(y, depth + 1) for y in x]}
    if t is list:
        return [enc(y, depth + 1) for y in x]
    if t is dict:
        return {'d': [[enc(k, depth + 1), enc(v, depth + 1)] for k, v in x.items()]}
    if t is float:
        return {'f': repr(x)}
    out = {'o': '%s.%s' % (t.__module__, t.__qualname__)}
    if isinstance(x, (bytes, bytearray, memoryview)):
        out['b'] = bytes(x).decode('latin-1')
    elif isinstance(x, (str, int)):
        out['r'] = str(x)[:80]
    return out


def blob(x):
    """length + digest of a byte string (bodies and body sources are compared, not stored)"""
    if isinstance(x, str):
        try:
            x = x.encode()
        except UnicodeError:
            return {'n': -2, 'h': 'unencodable'}
    if isinstance(x, (bytearray, memoryview)):
        x = bytes(x)
    if not isinstance(x, bytes):
        return {'n': -2, 'h': 'type:' + type(x).__name__}
    return {'n': len(x), 'h': hashlib.sha1(x).hexdigest()[:16]}


def _tname(x):
    t = type(x)
    return '%s.%s' % (t.__module__, t.__qualname__)


def _exc(ex):
    return {'type': _tname(ex), 'base': not isinstance(ex, Exception), 'msg': str(ex)[:200]}


# ------------------------------------------------------------------------------------------------
# output
# ------------------------------------------------------------------------------------------------

def _write(obj):
    fd = _FD[0]
    if fd is None:
        return
    try:
        line = json.dumps(obj, separators=(',', ':'), default=lambda o: {'o': _tname(o)}) + '\n'
    except Exception as ex:     # noqa
        line = json.dumps({'kind': 'error', 'what': 'unserialisable record: %r' % (ex,), 'node': _NODE[0]}) + '\n'
    os.write(fd, line.encode('utf-8', 'backslashreplace'))


def _finish(rec):
    if rec.get('_done'):
        return
    rec['_done'] = True
    _PENDING.pop(id(rec), None)
    it = rec.get('iter')
    if it is not None and '_sha' in it:
        it['body'] = {'n': it['_n'], 'h': it.pop('_sha').hexdigest()[:16]}
        del it['_n']
    _write({k: v for k, v in rec.items() if not k.startswith('_')})


def flush_pending():
    for rec in list(_PENDING.values()):
        rec['unfinished'] = True
        _finish(rec)


# ------------------------------------------------------------------------------------------------
# app configuration (falcon.inspect.inspect_app), cached per app object and configuration version
# ------------------------------------------------------------------------------------------------

def _slot(app):
    s = _APPS.get(id(app))
    if s is None or s['app'] is not app:
        s = _APPS[id(app)] = {'app': app, 'ver': 0, 'key': None, 'asm': [], 'stamps': {}}
    return s


def _bump(app):
    _slot(app)['ver'] += 1


def _inspect(app, slot):
    import falcon.inspect as fi
    cfg = {'asgi': bool(getattr(app, '_ASGI', False)), 'app_class': _tname(app)}
    # the parts of inspect_app(app), one by one, so that a part inspect cannot describe does not hide the others
    try:
        cfg['routes'] = [{'path': r.path, 'cls': r.class_name,
                          'methods': [[m.method, m.function_name, bool(m.internal), m.suffix,
                                       os.path.basename(str(m.source_info).rsplit(':', 1)[0])] for m in r.methods]}
                         for r in fi.inspect_routes(app)]
    except Exception as ex:      # e.g. a custom router inspect does not know
        cfg['inspect_error'] = '%s: %s' % (type(ex).__name__, str(ex)[:200])
    try:
        cfg['sinks'] = [{'prefix': s.prefix, 'name': s.name} for s in fi.inspect_sinks(app)]
        cfg['statics'] = [{'prefix': s.prefix, 'directory': s.directory, 'fallback': s.fallback_filename}
                          for s in fi.inspect_static_routes(app)]
        cfg['eh'] = [[e.error, e.name, bool(e.internal)] for e in fi.inspect_error_handlers(app)]
    except Exception as ex:      # noqa
        cfg['inspect_error2'] = '%s: %s' % (type(ex).__name__, str(ex)[:200])
    try:
        mw = fi.inspect_middleware(app)
        cfg['mw'] = {'independent': bool(mw.independent),
                     'classes': [[c.name, [m.function_name for m in c.methods]] for c in mw.middleware_classes],
                     'tree': [len(mw.middleware_tree.request), len(mw.middleware_tree.resource),
                              len(mw.middleware_tree.response)]}
    except Exception as ex:      # e.g. middleware given as a class with plain functions
        cfg['mw_error'] = '%s: %s' % (type(ex).__name__, str(ex)[:200])
        try:
            cfg['mw_count'] = len(app._unprepared_middleware)
        except Exception:     # noqa
            pass
    # what inspect_app does not tell: the flag, the classes in use, the order of the assembly calls
    try:
        cfg['sbs'] = bool(app._sink_before_static_route)
        cfg['router'] = _tname(app._router)
        cfg['req_type'] = '%s.%s' % (app._request_type.__module__, app._request_type.__qualname__)
        cfg['resp_type'] = '%s.%s' % (app._response_type.__module__, app._response_type.__qualname__)
        cfg['cors'] = bool(app._cors_enable)
        import falcon.constants as fc
        cfg['methods'] = sorted(fc.COMBINED_METHODS)
        cfg['serializer'] = getattr(app._serialize_error, '__module__', '?') + '.' + \
            getattr(app._serialize_error, '__name__', '?')
        cfg['asm'] = list(slot['asm'])
        st = slot['stamps']
        cfg['sink_seq'] = [st.get(id(e), -1) for e in app._sinks]
        cfg['static_seq'] = [st.get(id(e), -1) for e in app._static_routes]
        ro = app._router
        opts = getattr(ro, '_options', None)
        cfg['router_opts'] = sorted(getattr(opts, 'converters', {}).keys()) if opts is not None else None
        rq = app.req_options
        cfg['req_opts'] = {'strip_url_path_trailing_slash': bool(rq.strip_url_path_trailing_slash)}
        cfg['resp_opts'] = {'default_media_type': app.resp_options.default_media_type,
                            'secure_cookies_by_default': bool(app.resp_options.secure_cookies_by_default)}
    except Exception as ex:      # noqa
        cfg['attr_error'] = '%s: %s' % (type(ex).__name__, str(ex)[:200])
    return cfg


def _config_key(app):
    slot = _slot(app)
    if slot['key'] is not None and slot['key'][0] == slot['ver']:
        return slot['key'][1]
    cfg = _inspect(app, slot)
    key = hashlib.sha1(json.dumps(cfg, sort_keys=True, default=repr).encode()).hexdigest()[:16]
    slot['key'] = (slot['ver'], key)
    if key not in _WRITTEN:
        _WRITTEN.add(key)
        _write({'kind': 'app', 'key': key, 'cfg': cfg})
    return key


_WRITTEN = set()


# ------------------------------------------------------------------------------------------------
# the exchange
# ------------------------------------------------------------------------------------------------

def _new(app, iface):
    _SEQ[0] += 1
    rec = {'kind': 'x', 'iface': iface, 'node': _NODE[0], 'pid': os.getpid(), 'seq': _SEQ[0],
           'handled': [], 'snaps': [], 'prerender': [], 'route': None, 'exc': None}
    try:
        rec['app'] = _config_key(app)
    except Exception as ex:     # noqa
        rec['app'] = None
        rec['app_error'] = repr(ex)[:200]
    return rec


class _IterProxy:
    """What the server gets instead of a non-list WSGI result: forwards everything, notes the blocks
    as they are taken and the close() call.  hasattr(proxy, 'close') iff the result has close()."""

    def __init__(self, it, rec):
        object.__setattr__(self, '_sr_it', it)
        object.__setattr__(self, '_sr_rec', rec)
        object.__setattr__(self, '_sr_iter', None)

    def __iter__(self):
        if self._sr_iter is None:
            object.__setattr__(self, '_sr_iter', iter(self._sr_it))
        return self

    def __next__(self):
        if self._sr_iter is None:
            object.__setattr__(self, '_sr_iter', iter(self._sr_it))
        rec = self._sr_rec
        info = rec['iter']
        try:
            chunk = next(self._sr_iter)
        except StopIteration:
            info['exhausted'] = True
            if not info['has_close']:
                _finish(rec)
            raise
        except BaseException as ex:
            info['exc'] = _exc(ex)
            raise
        if isinstance(chunk, bytes):
            info['chunks'].append(len(chunk))
            info['_sha'].update(chunk)
            info['_n'] += len(chunk)
        else:
            info['chunks'].append(-1)
            info['bad_chunks'].append(_tname(chunk))
        return chunk

    def __getattr__(self, name):
        v = getattr(self._sr_it, name)
        if name == 'close':
            rec = self._sr_rec

            def close(*a, **k):
                rec['iter']['closes'] += 1
                try:
                    return v(*a, **k)
                except BaseException as ex:
                    rec['iter']['close_exc'] = _exc(ex)
                    raise
                finally:
                    _finish(rec)
            return close
        return v

    def __setattr__(self, name, value):
        setattr(self._sr_it, name, value)


def _wsgi_req(env):
    hs = []
    for k, v in env.items():
        if isinstance(k, str) and (k.startswith('HTTP_') or k in ('CONTENT_TYPE', 'CONTENT_LENGTH')):
            hs.append([k, enc(v)])
    return {'method': enc(env.get('REQUEST_METHOD')), 'path': enc(env.get('PATH_INFO')),
            'query': enc(env.get('QUERY_STRING')), 'headers': hs, 'file_wrapper': 'wsgi.file_wrapper' in env,
            'script_name': enc(env.get('SCRIPT_NAME'))}


def _make_wsgi_call(orig):
    @functools.wraps(orig)
    def __call__(self, env, start_response):
        if _FD[0] is None:
            return orig(self, env, start_response)
        rec = _new(self, 'wsgi')
        rec['starts'] = []
        try:
            rec['req'] = _wsgi_req(env)
        except Exception as ex:     # noqa
            rec['req'] = {'error': repr(ex)[:200]}

        def recording_start_response(*a, **k):
            try:
                rec['starts'].append({'args': enc(tuple(a)), 'kw': sorted(k)})
            except Exception as ex:     # noqa
                rec['starts'].append({'error': repr(ex)[:200]})
            return start_response(*a, **k)

        prev = _CUR.get()
        _CUR.set(rec)
        try:
            result = orig(self, env, recording_start_response)
        except BaseException as ex:
            rec['exc'] = _exc(ex)
            _finish(rec)
            raise
        finally:
            _CUR.set(prev)
        if type(result) in (list, tuple):
            rec['iter'] = {'type': type(result).__name__, 'list': True, 'has_close': False, 'closes': 0, 'exhausted': True,
                           'chunks': [len(c) if isinstance(c, bytes) else -1 for c in result],
                           'bad_chunks': [_tname(c) for c in result if not isinstance(c, bytes)],
                           'body': blob(b''.join(c for c in result if isinstance(c, bytes)))}
            _finish(rec)
            return result
        rec['iter'] = {'type': _tname(result), 'list': False, 'has_close': hasattr(result, 'close'), 'closes': 0,
                       'exhausted': False, 'chunks': [], 'bad_chunks': [], '_sha': hashlib.sha1(), '_n': 0}
        if not hasattr(result, '__iter__'):
            rec['iter']['not_iterable'] = True
            _finish(rec)
            return result
        _PENDING[id(rec)] = rec
        return _IterProxy(result, rec)
    return __call__


def _asgi_req(scope):
    # the headers may be a one-shot iterator of one-shot iterators (falcon.testing builds them so on
    # purpose): they are copied only when that cannot consume anything
    raw = scope.get('headers')
    if type(raw) in (list, tuple) and all(type(i) in (list, tuple) and len(i) == 2 for i in raw):
        hs = [[enc(i[0]), enc(i[1])] for i in raw]
    else:
        hs = {'o': _tname(raw)}
    return {'method': enc(scope.get('method')), 'path': enc(scope.get('path')), 'query': enc(scope.get('query_string')),
            'headers': hs, 'root_path': enc(scope.get('root_path')), 'http_version': enc(scope.get('http_version')),
            'spec_version': enc((scope.get('asgi') or {}).get('spec_version'))}


def _enc_event(ev):
    if type(ev) is not dict:
        return {'o': _tname(ev)}
    out = {}
    for k, v in ev.items():
        if k == 'body' and isinstance(v, (bytes, bytearray, memoryview)):
            out['body'] = dict(blob(v), type=type(v).__name__)
        elif k == 'headers':
            try:
                out['headers'] = {'type': type(v).__name__, 'items': [enc(i) for i in v]}
            except Exception:     # noqa
                out['headers'] = {'o': _tname(v)}
        else:
            out[str(k)] = enc(v)
    return out


def _make_asgi_call(orig):
    @functools.wraps(orig)
    async def __call__(self, scope, receive, send):
        if _FD[0] is None or not isinstance(scope, dict) or scope.get('type') != 'http':
            return await orig(self, scope, receive, send)
        rec = _new(self, 'asgi')
        rec['events'] = []
        rec['send_failed'] = None
        rec['received'] = []
        try:
            rec['req'] = _asgi_req(scope)
        except Exception as ex:     # noqa
            rec['req'] = {'error': repr(ex)[:200]}

        async def recording_send(ev):
            try:
                e = _enc_event(ev)
            except Exception as ex:     # noqa
                e = {'error': repr(ex)[:200]}
            try:
                r = await send(ev)
            except BaseException as ex:
                if rec['send_failed'] is None:
                    rec['send_failed'] = {'at': len(rec['events']), 'exc': _exc(ex), 'event': e}
                raise
            rec['events'].append(e)
            return r

        async def recording_receive():
            ev = await receive()
            try:
                rec['received'].append(ev.get('type') if type(ev) is dict else _tname(ev))
            except Exception:     # noqa
                pass
            return ev

        prev = _CUR.get()
        _CUR.set(rec)
        try:
            return await orig(self, scope, recording_receive, recording_send)
        except BaseException as ex:
            rec['exc'] = _exc(ex)
            raise
        finally:
            _CUR.set(prev)
            _finish(rec)
    return __call__


# ------------------------------------------------------------------------------------------------
# inside the exchange
# ------------------------------------------------------------------------------------------------

_INTERNAL_RESPONDERS = {'path_not_found': 'notfound', 'path_not_found_async': 'notfound',
                        'bad_request': 'badmethod', 'bad_request_async': 'badmethod',
                        'method_not_allowed': 'notallowed', 'method_not_allowed_responder_async': 'notallowed',
                        'options_responder': 'options', 'options_responder_async': 'options'}


def _route_obs(app, req, out):
    responder, params, resource, uri_template = out
    fn = responder.func if isinstance(responder, functools.partial) else responder
    name = getattr(fn, '__name__', None)
    mod = getattr(fn, '__module__', None)
    obs = {'m': enc(req.method), 'p': enc(req.path), 'tmpl': enc(uri_template), 'fn': enc(name), 'mod': enc(mod),
           'routed': resource is not None, 'kind': 'res', 'fb': [],
           'params': [[enc(k), enc(v)] for k, v in params.items()] if type(params) is dict else {'o': _tname(params)}}
    if mod == 'falcon.responders' and name in _INTERNAL_RESPONDERS:
        obs['kind'] = _INTERNAL_RESPONDERS[name]
    elif resource is None:
        hits = [e for e in app._sink_and_static_routes if e[1] is responder]
        if hits:
            obs['kind'] = 'sink' if hits[0][2] else 'static'
            st = _slot(app)['stamps']
            obs['fb'] = [st.get(id(e), -1) for e in hits]      # one callable may serve several prefixes
        else:
            obs['kind'] = 'unknown'
    return obs


def _make_get_responder(orig):
    @functools.wraps(orig)
    def _get_responder(self, req):
        rec = _CUR.get()
        if rec is None:
            return orig(self, req)
        try:
            out = orig(self, req)
        except BaseException as ex:
            rec['route'] = {'raised': _exc(ex)}
            raise
        try:
            rec['route'] = _route_obs(self, req, out)
        except Exception as ex:     # noqa
            rec['route'] = {'error': repr(ex)[:200]}
        return out
    return _get_responder


def _resp_state(resp):
    """the response object as the application left it (attribute reads only)"""
    st = {'cls': _tname(resp)}
    try:
        st['own_render'] = getattr(type(resp), 'render_body', None) not in _RENDERERS
        st['status'] = enc(resp.status)
        st['headers'] = [[enc(k), enc(v)] for k, v in resp._headers.items()]
        st['extra'] = [enc(i) for i in (resp._extra_headers or ())]
        ck = resp._cookies
        st['cookies'] = [[enc(k), enc(m.OutputString())] for k, m in ck.items()] if ck is not None else []
        text = resp.text
        st['text'] = None if text is None else blob(text)
        data = resp._data
        st['data'] = None if data is None else blob(data)
        st['media'] = resp._media is not None
        mr = resp._media_rendered
        st['media_rendered'] = None if mr is _UNSET[0] else (blob(mr) if mr is not None else {'n': -3, 'h': 'None'})
        s = resp.stream
        if s is None:
            st['stream'] = None
        else:
            st['stream'] = {'type': _tname(s), 'read': hasattr(s, 'read'), 'close': hasattr(s, 'close'), 'truthy': bool(s)}
        sse = getattr(resp, '_sse', None)
        st['sse'] = None if sse is None else {'type': _tname(sse), 'truthy': bool(sse)}
        st['complete'] = bool(resp.complete)
    except Exception as ex:     # noqa
        st['error'] = '%s: %s' % (type(ex).__name__, str(ex)[:200])
    return st


def _make_get_body(orig):
    @functools.wraps(orig)
    def _get_body(self, resp, wsgi_file_wrapper=None):
        rec = _CUR.get()
        if rec is None:
            return orig(self, resp, wsgi_file_wrapper)
        entry = {'ct_set': None, 'raised': None}
        try:
            entry['ct_set'] = 'content-type' in resp._headers
        except Exception:     # noqa
            pass
        rec['prerender'].append(entry)
        try:
            return orig(self, resp, wsgi_file_wrapper)
        except BaseException as ex:
            entry['raised'] = _exc(ex)
            raise
    return _get_body


def _make_headers(orig, which):
    @functools.wraps(orig)
    def headers(self, media_type=None):
        rec = _CUR.get()
        if rec is None:
            return orig(self, media_type)
        snap = _resp_state(self)
        snap['media_type_arg'] = enc(media_type)
        snap['via'] = which
        rec['snaps'].append(snap)
        return orig(self, media_type)
    return headers


def _make_handle_exception_sync(orig):
    @functools.wraps(orig)
    def _handle_exception(self, req, resp, ex, params):
        rec = _CUR.get()
        if rec is not None:
            rec['handled'].append(_tname(ex))
        return orig(self, req, resp, ex, params)
    return _handle_exception


def _make_handle_exception_async(orig):
    @functools.wraps(orig)
    async def _handle_exception(self, req, resp, ex, params, ws=None):
        rec = _CUR.get()
        if rec is not None:
            rec['handled'].append(_tname(ex))
        return await orig(self, req, resp, ex, params, ws=ws)
    return _handle_exception


# ------------------------------------------------------------------------------------------------
# assembly calls: configuration version, order of add_sink / add_static_route
# ------------------------------------------------------------------------------------------------

def _make_bumping(orig):
    @functools.wraps(orig)
    def wrapper(self, *a, **k):
        try:
            return orig(self, *a, **k)
        finally:
            _bump(self)
    return wrapper


def _make_stamping(orig, kind):
    attr = '_sinks' if kind == 'sink' else '_static_routes'

    @functools.wraps(orig)
    def wrapper(self, *a, **k):
        try:
            before = set(id(e) for e in getattr(self, attr))
        except Exception:     # noqa
            before = None
        try:
            return orig(self, *a, **k)
        finally:
            slot = _slot(self)
            slot['ver'] += 1
            try:
                if before is not None:
                    for e in getattr(self, attr):
                        if id(e) not in before and id(e) not in slot['stamps']:
                            seq = len(slot['asm']) + 1
                            slot['stamps'][id(e)] = seq
                            slot.setdefault('keep', []).append(e)
                            if kind == 'sink':
                                slot['asm'].append({'seq': seq, 'kind': 'sink', 'pattern': enc(e[0].pattern),
                                                    'flags': enc(getattr(e[0], 'flags', None))})
                            else:
                                sr = e[1]
                                slot['asm'].append({'seq': seq, 'kind': 'static', 'prefix': enc(sr._prefix),
                                                    'fallback': sr._fallback_filename is not None})
            except Exception as ex:     # noqa
                slot['asm'].append({'seq': -1, 'kind': 'error', 'what': repr(ex)[:100]})
    return wrapper


# ------------------------------------------------------------------------------------------------
# installation / pytest hooks
# ------------------------------------------------------------------------------------------------

def install():
    if _INSTALLED[0]:
        return
    path = os.environ.get(ENV)
    if not path:
        return
    import falcon
    import falcon.app
    import falcon.asgi
    import falcon.asgi.app
    import falcon.asgi.response
    import falcon.response
    _UNSET[0] = falcon.response._UNSET
    _RENDERERS[:] = [falcon.response.Response.render_body, falcon.asgi.response.Response.render_body]
    _FD[0] = os.open(path, os.O_WRONLY | os.O_APPEND | os.O_CREAT, 0o644)
    A, AA = falcon.app.App, falcon.asgi.app.App
    A.__call__ = _make_wsgi_call(A.__call__)
    AA.__call__ = _make_asgi_call(AA.__call__)
    A._get_responder = _make_get_responder(A._get_responder)
    A._get_body = _make_get_body(A._get_body)
    A._handle_exception = _make_handle_exception_sync(A._handle_exception)
    AA._handle_exception = _make_handle_exception_async(AA._handle_exception)
    falcon.response.Response._wsgi_headers = _make_headers(falcon.response.Response._wsgi_headers, 'wsgi')
    falcon.asgi.response.Response._asgi_headers = _make_headers(falcon.asgi.response.Response._asgi_headers, 'asgi')
    A.add_sink = _make_stamping(A.add_sink, 'sink')
    A.add_static_route = _make_stamping(A.add_static_route, 'static')
    for cls, names in ((A, ('add_route', 'add_middleware', 'add_error_handler', 'set_error_serializer')),
                       (AA, ('add_error_handler',))):
        for name in names:
            if name in cls.__dict__:
                setattr(cls, name, _make_bumping(cls.__dict__[name]))
    _INSTALLED[0] = True
    import atexit
    atexit.register(flush_pending)


def pytest_configure(config):
    install()


def pytest_runtest_logstart(nodeid, location):
    _NODE[0] = nodeid


def pytest_sessionfinish(session, exitstatus):
    flush_pending()
