"""Suite recorder (functions and readers): a pytest plugin that records, while falcon's own test suite runs,

  family U  falcon.util.uri.decode / encode / encode_value / encode_check_escaped / encode_value_check_escaped / parse_host
  family Q  falcon.util.uri.parse_query_string, falcon.util.misc.to_query_str
  family M  falcon.util.mediatypes.quality / best_match
  family C  falcon.util.reader.BufferedReader (sync) and falcon.asgi.reader.BufferedReader (async), delimit() sub-readers included
  family B  falcon.stream.BoundedStream (WSGI) and falcon.asgi.stream.BoundedStream (ASGI request stream)

Loaded with ``-p engine.suite_recorder_fn`` (PYTHONPATH=/verif/tools/srcmode puts /verif on sys.path and installs the
source-only importer); nothing in /repo is changed.  Output: JSON lines in $SUITE_RECORD_FN_DIR/<pid>.jsonl (one file per
process, so xdist workers never share a file).

How the names are wrapped.  The pure functions are replaced AT THEIR DEFINITION SITE: a sys.meta_path hook in front of the
source-only importer runs right after the defining module (falcon.util.uri, falcon.util.misc, falcon.util.mediatypes) has
been executed and rebinds the module attributes, i.e. before any other falcon module can do ``from falcon.util.uri import
parse_query_string`` (falcon.request, falcon.asgi.request, falcon.media.urlencoded, falcon.uri, falcon.response,
falcon.util.misc, falcon.testing.client all import by name and therefore bind the wrappers).  A sweep over sys.modules at
configure time verifies that no falcon module still references an original (anything found is patched and reported in the
"meta" record as late_patched).  The reader / stream classes are patched in place (methods of the class object), so every
reference to the class, every subclass and isinstance() keep working.

What is recorded.
  {"kind":"fn","fn":..,"args":[..],"kw":{..},"res":..|"exc":{type,mro,msg},"node":test id, ...}
        one line per DISTINCT call (same function, arguments and outcome are written once per process; the number of
        calls is kept in the "count" line).  Nothing else: the extra observations a judge may ask for (f(f(s)),
        the same authority with another port, decode of an encoder's output ...) are taken by the CHECK, with the
        event builders of the property that owns the judge, so the recorder does not depend on a judge's format.
  {"kind":"hist","cls":"reader.sync|reader.async|stream.wsgi|stream.asgi","ctor":{..},"src":[..],"data":..,"ev":[..],"flags":[..]}
        one line per reader / stream object: constructor arguments, everything its source returned (reader: the
        concatenated bytes and the list of asks; WSGI stream: every ask of wsgi.input with the size asked and the bytes
        returned; ASGI stream: every event receive() returned), then one event per OUTERMOST public call at its return
        (error path included) with arguments, result / exception and tell / eof where the class has them.  Sub-readers
        made by delimit() write into the history of the reader they were cut from.  Async iteration: a reader's loop is
        one "iter" event when it is complete; an ASGI stream's loop is stepwise as BodyStreamTrace reads it - one
        "iternext" per chunk (observed while the generator is suspended, i.e. from inside the loop body; stop=true for
        the turn that ended the loop) and "iterbreak" when the suspended iterator is closed or something else is
        called on the stream before the loop has ended.
  {"kind":"count", ...}   calls per function, histories per class (per process)
  {"kind":"meta", ...}    what was wrapped where

The recorder decides nothing and is transparent: same arguments, same return value / exception, same awaits.  Visible
differences (none of which the suite notices: it still ends with 3440 passed): a reader's source callable / async
iterable, wsgi.input inside a BoundedStream and receive() inside an ASGI stream are handed over inside forwarding
proxies that note what passes; pipe()/pipe_until() destinations are wrapped by a forwarding proxy (a noting sink is
supplied when the caller gave none); ``__aiter__`` returns a forwarding async iterator.

typed copies:  str -> JSON string   bytes -> {"b": latin-1 text}   tuple -> {"t":[..]}   list -> [..]   dict -> {"d":[[k,v]..]}
               set-like -> {"s":[..]}   float -> {"f": repr}   int / bool / None -> themselves   else -> {"o": type name}
"""
import collections.abc
import functools
import hashlib
import importlib.abc
import json
import os
import sys
import threading

ENV = 'SUITE_RECORD_FN_DIR'
MAX_DATA = 1 << 16          # longest single byte string copied (function arguments / results)
MAX_STORE = 3 << 16         # bytes kept per history: source data + event results together (beyond: flag "too_large",
                            # bytes dropped, lengths kept; such a history is counted and skipped, never judged)
MAX_EVENTS = 4000           # events kept per history (beyond: flag "too_many_events")
BIG = 1000000               # = BodyStreamOps!BIG: "an ask without a size"

_FD = [None]
_NODE = ['']
_SEEN = set()
_COUNT = collections.Counter()
_HISTS = {}                 # id(object) -> (object, _Hist)   (strong references: ids stay unique until the flush)
_OPEN = []                  # histories not yet written
_TLS = threading.local()
_META = {'hooked': [], 'late_patched': [], 'classes': [], 'errors': []}
_ORIG = {}                  # name -> original function
_WRAP = {}                  # id(original) -> wrapper
_INSTALLED = [False]


# ------------------------------------------------------------------------------------------------
# typed copies, output
# ------------------------------------------------------------------------------------------------

def _tname(x):
    t = x if isinstance(x, type) else type(x)
    return '%s.%s' % (t.__module__, t.__qualname__)


def enc(x, depth=0):
    if x is None or x is True or x is False:
        return x
    t = type(x)
    if t is str:
        return x
    if t is int:
        return x if -(2 ** 53) < x < 2 ** 53 else {'o': 'int', 'r': str(x)[:40]}
    if t is bytes:
        return {'b': x.decode('latin-1')} if len(x) <= MAX_DATA else {'o': 'bytes', 'n': len(x)}
    if t is float:
        return {'f': repr(x)}
    if depth > 5:
        return {'o': _tname(x)}
    if t is tuple:
        return {'t': [enc(y, depth + 1) for y in x]}
    if t is list:
        return [enc(y, depth + 1) for y in x]
    if t is dict:
        return {'d': [[enc(k, depth + 1), enc(v, depth + 1)] for k, v in x.items()]}
    if isinstance(x, (collections.abc.Set, collections.abc.KeysView, collections.abc.ValuesView)):
        try:
            return {'s': [enc(y, depth + 1) for y in x], 'o': _tname(x)}
        except Exception:     # noqa
            pass
    out = {'o': _tname(x)}
    if isinstance(x, (bytes, bytearray, memoryview)):
        b = bytes(x)
        if len(b) <= MAX_DATA:
            out['b'] = b.decode('latin-1')
    elif isinstance(x, (str, int, float)):
        out['r'] = repr(x)[:120]
    elif isinstance(x, dict):
        try:
            out['d'] = [[enc(k, depth + 1), enc(v, depth + 1)] for k, v in x.items()]
        except Exception:     # noqa
            pass
    return out


def _exc(ex):
    return {'type': _tname(ex), 'mro': [_tname(c) for c in type(ex).__mro__], 'msg': str(ex)[:200],
            'base': not isinstance(ex, Exception)}


def _write(obj):
    fd = _FD[0]
    if fd is None:
        return
    try:
        line = json.dumps(obj, separators=(',', ':'), default=lambda o: {'o': _tname(o)}) + '\n'
    except Exception as ex:     # noqa
        line = json.dumps({'kind': 'error', 'what': 'unserialisable record: %r' % (ex,), 'node': _NODE[0]}) + '\n'
    os.write(fd, line.encode('utf-8', 'backslashreplace'))


# ------------------------------------------------------------------------------------------------
# pure functions
# ------------------------------------------------------------------------------------------------

def _wrap_function(name, orig):
    def wrapper(*a, **k):
        if _FD[0] is None:
            return orig(*a, **k)
        _COUNT[name] += 1
        try:
            ea, ek = [enc(x) for x in a], {str(n): enc(v) for n, v in k.items()}
        except Exception as ex:     # noqa
            ea, ek = [{'o': 'unencodable', 'r': repr(ex)[:80]}], {}
        try:
            res = orig(*a, **k)
        except BaseException as ex:
            _fn_record(name, ea, ek, None, ex)
            raise
        _fn_record(name, ea, ek, res, None)
        return res
    try:
        functools.update_wrapper(wrapper, orig)
    except Exception:     # noqa
        pass
    for extra in ('cache_clear', 'cache_info', 'cache_parameters'):      # lru_cache'd functions keep their interface
        if hasattr(orig, extra):
            setattr(wrapper, extra, getattr(orig, extra))
    wrapper._suite_recorder_original = orig
    return wrapper


def _fn_record(name, ea, ek, res, ex):
    try:
        rec = {'kind': 'fn', 'fn': name, 'args': ea, 'kw': ek}
        if ex is not None:
            rec['exc'] = _exc(ex)
        else:
            rec['res'] = enc(res)
        key = hashlib.sha1(json.dumps(rec, sort_keys=True, default=repr).encode('utf-8', 'backslashreplace')).digest()
        if key in _SEEN:
            return
        _SEEN.add(key)
        rec['node'] = _NODE[0]
        _write(rec)
    except Exception as e2:     # noqa  (the recorder must never change the outcome of the call)
        _META['errors'].append('fn %s: %r' % (name, e2))


_URI_FUNCS = ('decode', 'encode', 'encode_value', 'encode_check_escaped', 'encode_value_check_escaped', 'parse_host',
              'parse_query_string')


def _patch_module_functions(module, names):
    for name in names:
        orig = getattr(module, name, None)
        if orig is None or getattr(orig, '_suite_recorder_original', None) is not None:
            continue
        w = _wrap_function(name, orig)
        _ORIG[name] = orig
        _WRAP[id(orig)] = w
        setattr(module, name, w)
    _META['hooked'].append(module.__name__)


def _on_uri(module):
    _patch_module_functions(module, _URI_FUNCS)


def _on_misc(module):
    _patch_module_functions(module, ('to_query_str',))


def _on_mediatypes(module):
    _patch_module_functions(module, ('quality', 'best_match'))


# ------------------------------------------------------------------------------------------------
# histories (readers and streams)
# ------------------------------------------------------------------------------------------------

class _Hist:
    def __init__(self, cls, root, ctor):
        self.cls = cls
        self.ctor = ctor
        self.node = _NODE[0]
        self.ev = []
        self.src = []               # what the source was asked / returned
        self.data = bytearray()     # reader, WSGI stream: every byte the source returned
        self.ndata = 0
        self.stored = 0
        self.stack = [root]         # reader: open readers, innermost last
        self.depth = 0              # > 0 while a public call of this history is running (nested calls are not events)
        self.flags = set()
        self.iter_open = None       # the forwarding iterator of an iteration that has begun and not ended
        self.reach = 0              # WSGI stream
        self.written = False
        _OPEN.append(self)
        _COUNT['hist:' + cls] += 1

    def feed(self, b):
        n = len(b)
        self.ndata += n
        self.stored += n
        if self.stored <= MAX_STORE:
            self.data += b
        else:
            self.flags.add('too_large')

    def take(self, b):
        """typed copy of a byte string within the history's budget"""
        n = len(b)
        self.stored += n
        if self.stored <= MAX_STORE:
            return {'b': bytes(b).decode('latin-1')}
        self.flags.add('too_large')
        return {'o': 'bytes', 'n': n}

    def event(self, e):
        if self.iter_open is not None and e.get('op') not in ('iter', 'iternext', 'iterbreak'):
            self.flags.add('call_during_iteration')
        if len(self.ev) >= MAX_EVENTS:
            self.flags.add('too_many_events')
            return
        self.ev.append(e)

    def dump(self):
        if self.written:
            return
        self.written = True
        if self.iter_open is not None and not getattr(self.iter_open, '_stepwise', False):
            self.flags.add('partial_iteration')
        if not self.ev:
            _COUNT['hist_empty:' + self.cls] += 1
            return
        too = 'too_large' in self.flags
        _write({'kind': 'hist', 'cls': self.cls, 'node': self.node, 'ctor': self.ctor, 'src': self.src[:MAX_EVENTS],
                'data': None if too else {'b': bytes(self.data).decode('latin-1')}, 'ndata': self.ndata,
                'ev': self.ev, 'flags': sorted(self.flags)})


def _hist_of(obj):
    h = _HISTS.get(id(obj))
    if h is not None and h[0] is obj:
        return h[1]
    return None


def _register(obj, hist):
    _HISTS[id(obj)] = (obj, hist)


def flush_histories():
    for h in list(_OPEN):
        try:
            h.dump()
        except Exception as ex:     # noqa
            _META['errors'].append('dump: %r' % (ex,))
    del _OPEN[:]
    _HISTS.clear()


def _res_bytes(h, e, res):
    if isinstance(res, (bytes, bytearray)):
        e['res'] = h.take(res)
    else:
        e['res'] = enc(res)
        e['badres'] = True


def _res_lines(h, e, res):
    if isinstance(res, list) and all(isinstance(x, bytes) for x in res):
        e['lines'] = [h.take(x) for x in res]
        e['res'] = {'j': 'lines'}             # the concatenation of the lines (not stored twice)
    else:
        e['res'] = enc(res)
        e['badres'] = True


def _size(x):
    """a size argument as the judges spell it: None and -1 are -1; everything else is copied (typed)"""
    if x is None:
        return -1
    if type(x) is int:
        return x if -(2 ** 31) < x < 2 ** 31 else {'o': 'int', 'r': str(x)[:40]}
    return enc(x)


class _Sink:
    """destination of pipe() / pipe_until(): notes what is written and forwards it (if there is somewhere to)"""

    def __init__(self, dest, h):
        self._dest = dest
        self._h = h
        self.parts = []
        self.n = 0

    def _note(self, b):
        try:
            self.n += len(b)
            if self._h.stored + self.n <= MAX_STORE:
                self.parts.append(bytes(b))
            else:
                self.parts = None
        except Exception:     # noqa
            self.parts = None

    def write(self, b):
        self._note(b)
        if self._dest is not None:
            return self._dest.write(b)
        return None

    def joined(self):
        return b''.join(self.parts) if self.parts is not None else None


class _ASink(_Sink):
    async def write(self, b):
        self._note(b)
        if self._dest is not None:
            return await self._dest.write(b)
        return None


def _pipe_result(h, e, sink):
    j = sink.joined()
    if j is None:
        h.flags.add('too_large')
        e['res'] = {'o': 'bytes', 'n': sink.n}
    else:
        e['res'] = h.take(j)


# ---- readers ------------------------------------------------------------------------------------

def _reader_enter(h, r, e):
    """place an event of reader r: sub-readers above r are ended (the judge checks that they were exhausted)"""
    if r is h.stack[-1]:
        return
    if any(r is x for x in h.stack):
        while h.stack[-1] is not r:
            h.stack.pop()
            h.event({'op': 'endsub', 'n': -1, 'd': {'b': ''}, 'c': False, 'res': {'b': ''}, 'err': False, 'lines': [],
                     'tell': -1, 'eof': -1, 'pulled': h.ndata})
    else:
        h.flags.add('closed_subreader_used_again')


def _reader_log(h, r, e, is_async):
    if is_async:
        try:
            e['tell'] = r.tell()
            e['eof'] = 1 if r.eof else 0
        except Exception as ex:     # noqa
            e['indicator_exc'] = repr(ex)[:120]
    e['pulled'] = h.ndata
    h.event(e)


def _rev(op, n=-1, d=b'', c=False):
    return {'op': op, 'n': n, 'd': enc(d) if isinstance(d, bytes) else {'o': _tname(d)}, 'c': bool(c), 'res': {'b': ''},
            'err': False, 'lines': [], 'tell': -1, 'eof': -1, 'pulled': 0}


def _reader_exc(e, ex):
    if 'falcon.errors.DelimiterError' in [_tname(c) for c in type(ex).__mro__]:
        e['err'] = True
    else:
        e['exc'] = _exc(ex)


def _new_reader_hist(kind, obj, ctor):
    h = _Hist('reader.' + kind, obj, ctor)
    _register(obj, h)
    return h


def _late_hist(kind, obj):
    """an object the recorder did not see being made (or that outlived the flush after its test)"""
    h = _Hist(kind, obj, {})
    h.flags.add('unknown_start')
    _register(obj, h)
    return h


def _pending():
    p = getattr(_TLS, 'pending', None)
    if p is None:
        p = _TLS.pending = []
    return p


def _patch_sync_reader(module):
    cls = module.BufferedReader
    if getattr(cls, '_suite_recorder_patched', None) is cls:
        return
    default_cs = getattr(module, 'DEFAULT_CHUNK_SIZE', 32768)
    o_init = cls.__init__

    @functools.wraps(o_init)
    def __init__(self, *a, **k):
        if _FD[0] is None or _pending():
            return o_init(self, *a, **k)        # a delimit() in progress: the sub-reader joins its parent's history
        try:
            args = list(a)
            read = args[0] if args else k.get('read')
            maxlen = args[1] if len(args) > 1 else k.get('max_stream_len')
            cs = args[2] if len(args) > 2 else k.get('chunk_size')
            h = _new_reader_hist('sync', self, {'maxlen': _size(maxlen), 'cs': enc(cs), 'default_cs': default_cs,
                                                 'source': _tname(read)})
        except Exception as ex:     # noqa
            _META['errors'].append('sync reader init: %r' % (ex,))
            return o_init(self, *a, **k)

        def logged_read(size=-1, *rest):
            try:
                chunk = read(size, *rest)
            except BaseException as ex:
                h.src.append([_size(size), -1, _tname(ex)])
                raise
            try:
                n = len(chunk)
                h.src.append([_size(size), n])
                if isinstance(chunk, (bytes, bytearray)):
                    h.feed(chunk)
                else:
                    h.flags.add('source_returned_non_bytes')
            except Exception:     # noqa
                h.flags.add('source_returned_non_bytes')
            return chunk
        if args:
            args[0] = logged_read
        else:
            k = dict(k, read=logged_read)
        return o_init(self, *args, **k)
    cls.__init__ = __init__

    def public(name, build, result=None, sink_at=None):
        orig = cls.__dict__[name]

        @functools.wraps(orig)
        def method(self, *a, **k):
            if _FD[0] is None:
                return orig(self, *a, **k)
            h = _hist_of(self) or _late_hist('reader.sync', self)
            if h.depth:
                return orig(self, *a, **k)
            try:
                e = build(*a, **k)
            except Exception as ex:     # noqa
                e = _rev(name)
                e['badargs'] = repr(ex)[:120]
            _reader_enter(h, self, e)
            sink = None
            if sink_at is not None and 'badargs' not in e:
                a = list(a)
                if len(a) > sink_at:
                    sink = _Sink(a[sink_at], h)
                    a[sink_at] = sink
                else:
                    sink = _Sink(k.get('destination'), h)
                    k = dict(k, destination=sink)
            h.depth += 1
            try:
                res = orig(self, *a, **k)
            except BaseException as ex:
                h.depth -= 1
                _reader_exc(e, ex)
                if sink is not None:
                    e['piped'] = sink.n
                _reader_log(h, self, e, False)
                raise
            h.depth -= 1
            try:
                if sink is not None:
                    _pipe_result(h, e, sink)
                elif result is not None:
                    result(h, e, res)
                _reader_log(h, self, e, False)
            except Exception as ex:     # noqa
                _META['errors'].append('sync reader %s: %r' % (name, ex))
            return res
        setattr(cls, name, method)

    public('read', lambda size=-1: _rev('read', _size(size)), _res_bytes)
    public('peek', lambda size=-1: _rev('peek', _size(size)), _res_bytes)
    public('read_until', lambda delimiter, size=-1, consume_delimiter=False:
           _rev('read_until', _size(size), delimiter, consume_delimiter), _res_bytes)
    public('pipe_until', lambda delimiter, destination=None, consume_delimiter=False:
           _rev('pipe_until', -1, delimiter, consume_delimiter), None, sink_at=1)
    public('pipe', lambda destination=None: _rev('pipe'), None, sink_at=0)
    public('exhaust', lambda: _rev('exhaust'))
    public('readline', lambda size=-1: _rev('readline', _size(size)), _res_bytes)
    public('readlines', lambda hint=-1: _rev('readlines', _size(hint)), _res_lines)
    _patch_delimit(cls, 'reader.sync', False)
    cls._suite_recorder_patched = cls
    _META['classes'].append(_tname(cls))


def _patch_delimit(cls, kind, is_async):
    o_delimit = cls.__dict__['delimit']

    @functools.wraps(o_delimit)
    def delimit(self, *a, **k):
        if _FD[0] is None:
            return o_delimit(self, *a, **k)
        h = _hist_of(self) or _late_hist(kind, self)
        if h.depth:
            return o_delimit(self, *a, **k)
        try:
            d = a[0] if a else k.get('delimiter')
            e = _rev('delimit', -1, d)
        except Exception as ex:     # noqa
            e = _rev('delimit')
            e['badargs'] = repr(ex)[:120]
        _reader_enter(h, self, e)
        p = _pending()
        p.append(h)
        h.depth += 1
        try:
            child = o_delimit(self, *a, **k)
        except BaseException as ex:
            e['exc'] = _exc(ex)
            _reader_log(h, self, e, is_async)
            raise
        finally:
            h.depth -= 1
            p.pop()
        try:
            _register(child, h)
            h.stack.append(child)
            _reader_log(h, child, e, is_async)       # the judge reads the NEW reader's tell() on delimit
        except Exception as ex:     # noqa
            _META['errors'].append('delimit: %r' % (ex,))
        return child
    cls.delimit = delimit


class _AIter:
    """what __aiter__ returns: forwards the iteration and notes the chunks.
    stepwise=False (readers): one "iter" event when the loop is complete.
    stepwise=True (ASGI stream): one "iternext" event per turn, "iterbreak" when it is closed while suspended."""

    def __init__(self, it, h, owner, make_event, log, stepwise=False):
        self._it, self._h, self._owner, self._e, self._log, self._stepwise = it, h, owner, make_event, log, stepwise
        self._parts, self._n, self._done, self._started = [], 0, False, False

    def __aiter__(self):
        return self

    async def __anext__(self):
        h = self._h
        if not self._started:
            self._started = True
            if h.iter_open is None:
                h.iter_open = self
            elif self._stepwise:
                _stream_break(h)                          # a second loop while the first is suspended
                h.iter_open = self
            else:
                h.flags.add('call_during_iteration')     # a second iteration while the first is under way
        nested = h.depth > 0
        h.depth += 1
        try:
            chunk = await self._it.__anext__()
        except StopAsyncIteration:
            h.depth -= 1
            self._finish(None, nested, True)
            raise
        except BaseException as ex:
            h.depth -= 1
            self._finish(ex, nested, True)
            raise
        h.depth -= 1
        if self._stepwise:
            if not nested:
                try:
                    e = self._e('iternext')
                    if isinstance(chunk, (bytes, bytearray)):
                        e['res'] = h.take(chunk)
                    else:
                        e['res'] = enc(chunk)
                        e['badres'] = True
                    self._log(e, None)
                except Exception as e2:     # noqa
                    _META['errors'].append('iternext: %r' % (e2,))
            return chunk
        try:
            self._n += len(chunk)
            if self._parts is not None and h.stored + self._n <= MAX_STORE:
                self._parts.append(bytes(chunk))
            else:
                self._parts = None
        except Exception:     # noqa
            h.flags.add('iteration_yielded_non_bytes')
        return chunk

    def _finish(self, ex, nested, ended):
        if self._done:
            return
        self._done = True
        h = self._h
        if h.iter_open is self:
            h.iter_open = None
        if nested:
            return
        try:
            if self._stepwise:
                e = self._e('iternext')
                if ex is not None:
                    self._log(e, ex)
                else:
                    e['stop'] = True
                self._log(e, None)
                return
            e = self._e('iter')
            if ex is not None:
                self._log(e, ex)
            elif self._parts is not None:
                e['res'] = h.take(b''.join(self._parts))
            else:
                h.flags.add('too_large')
                e['res'] = {'o': 'bytes', 'n': self._n}
            self._log(e, None)
        except Exception as e2:     # noqa
            _META['errors'].append('iter: %r' % (e2,))

    async def aclose(self):
        h = self._h
        h.depth += 1
        try:
            return await self._it.aclose()
        finally:
            h.depth -= 1
            if self._stepwise and self._started and not self._done and h.iter_open is self:
                self._done = True
                _stream_break(h)

    def __getattr__(self, name):
        return getattr(self._it, name)


def _stream_break(h):
    """the suspended loop of an ASGI stream is over without having ended: "iterbreak", observed now"""
    it = h.iter_open
    h.iter_open = None
    if it is None:
        return
    try:
        it._log(it._e('iterbreak'), None)
    except Exception as e2:     # noqa
        _META['errors'].append('iterbreak: %r' % (e2,))


def _patch_async_reader(module):
    cls = module.BufferedReader
    if getattr(cls, '_suite_recorder_patched', None) is cls:
        return
    default_cs = getattr(module, 'DEFAULT_CHUNK_SIZE', 32768)
    o_init = cls.__init__

    @functools.wraps(o_init)
    def __init__(self, *a, **k):
        if _FD[0] is None or _pending():
            return o_init(self, *a, **k)
        try:
            args = list(a)
            source = args[0] if args else k.get('source')
            cs = args[1] if len(args) > 1 else k.get('chunk_size')
            h = _new_reader_hist('async', self, {'cs': enc(cs), 'default_cs': default_cs, 'source': _tname(source)})
        except Exception as ex:     # noqa
            _META['errors'].append('async reader init: %r' % (ex,))
            return o_init(self, *a, **k)

        async def logged_source():
            async for item in source:
                try:
                    h.src.append([-1, len(item)])
                    if isinstance(item, (bytes, bytearray)):
                        h.feed(item)
                    else:
                        h.flags.add('source_returned_non_bytes')
                except Exception:     # noqa
                    h.flags.add('source_returned_non_bytes')
                yield item
            h.src.append([-1, -2])          # the source said it is at its end
        if args:
            args[0] = logged_source()
        else:
            k = dict(k, source=logged_source())
        return o_init(self, *args, **k)
    cls.__init__ = __init__

    def public(name, build, result=None, sink_at=None):
        orig = cls.__dict__[name]

        @functools.wraps(orig)
        async def method(self, *a, **k):
            if _FD[0] is None:
                return await orig(self, *a, **k)
            h = _hist_of(self) or _late_hist('reader.async', self)
            if h.depth:
                return await orig(self, *a, **k)
            try:
                e = build(*a, **k)
            except Exception as ex:     # noqa
                e = _rev(name)
                e['badargs'] = repr(ex)[:120]
            _reader_enter(h, self, e)
            sink = None
            if sink_at is not None and 'badargs' not in e:
                a = list(a)
                if len(a) > sink_at:
                    sink = _ASink(a[sink_at], h)
                    a[sink_at] = sink
                else:
                    sink = _ASink(k.get('destination'), h)
                    k = dict(k, destination=sink)
            h.depth += 1
            try:
                res = await orig(self, *a, **k)
            except BaseException as ex:
                h.depth -= 1
                _reader_exc(e, ex)
                if sink is not None:
                    e['piped'] = sink.n
                _reader_log(h, self, e, True)
                raise
            h.depth -= 1
            try:
                if sink is not None:
                    _pipe_result(h, e, sink)
                elif result is not None:
                    result(h, e, res)
                _reader_log(h, self, e, True)
            except Exception as ex:     # noqa
                _META['errors'].append('async reader %s: %r' % (name, ex))
            return res
        setattr(cls, name, method)

    public('read', lambda size=-1: _rev('read', _size(size)), _res_bytes)
    public('readall', lambda: _rev('read', -1), _res_bytes)
    public('peek', lambda size=-1: _rev('peek', _size(size)), _res_bytes)
    public('read_until', lambda delimiter, size=-1, consume_delimiter=False:
           _rev('read_until', _size(size), delimiter, consume_delimiter), _res_bytes)
    public('pipe_until', lambda delimiter, destination=None, consume_delimiter=False:
           _rev('pipe_until', -1, delimiter, consume_delimiter), None, sink_at=1)
    public('pipe', lambda destination=None: _rev('pipe'), None, sink_at=0)
    public('exhaust', lambda: _rev('exhaust'))
    _patch_delimit(cls, 'reader.async', True)

    o_aiter = cls.__dict__['__aiter__']

    @functools.wraps(o_aiter)
    def __aiter__(self):
        if _FD[0] is None:
            return o_aiter(self)
        h = _hist_of(self) or _late_hist('reader.async', self)
        if h.depth:
            return o_aiter(self)
        it = o_aiter(self)           # may refuse (already being iterated over): nothing happened to the reader

        def log(e, ex):
            if ex is not None:
                _reader_exc(e, ex)
                return
            _reader_enter(h, self, e)
            _reader_log(h, self, e, True)
        return _AIter(it, h, self, lambda op: _rev(op), log)
    cls.__aiter__ = __aiter__
    cls._suite_recorder_patched = cls
    _META['classes'].append(_tname(cls))


# ---- WSGI BoundedStream -----------------------------------------------------------------------------

class _RawProxy:
    """wsgi.input as the BoundedStream sees it: forwards everything, notes every ask and what came back"""

    def __init__(self, raw, h):
        object.__setattr__(self, '_sr_raw', raw)
        object.__setattr__(self, '_sr_h', h)

    def _sr_call(self, name, a, k, unsized=False):
        h = self._sr_h
        size = a[0] if a else None
        s = -1 if (unsized or size is None or type(size) is not int or size < 0) else size
        before = h.ndata
        h.reach = max(h.reach, BIG if s < 0 else before + s)
        try:
            r = getattr(self._sr_raw, name)(*a, **k)
        except BaseException as ex:
            h.src.append([name, _size(size), -1, _tname(ex)])
            raise
        try:
            if isinstance(r, (bytes, bytearray)):
                h.src.append([name, _size(size), len(r)])
                h.feed(r)
            elif isinstance(r, list) and all(isinstance(x, (bytes, bytearray)) for x in r):
                h.src.append([name, _size(size), sum(len(x) for x in r)])
                for x in r:
                    h.feed(x)
            else:
                h.src.append([name, _size(size), -3])
                h.flags.add('source_returned_non_bytes')
        except Exception:     # noqa
            h.flags.add('source_returned_non_bytes')
        return r

    def read(self, *a, **k):
        return self._sr_call('read', a, k)

    def readline(self, *a, **k):
        return self._sr_call('readline', a, k)

    def readlines(self, *a, **k):
        return self._sr_call('readlines', a, k, unsized=True)

    def __iter__(self):
        return self

    def __next__(self):
        return self._sr_call('__next__', (), {}, unsized=True)

    def __getattr__(self, name):
        return getattr(self._sr_raw, name)

    def __setattr__(self, name, value):
        setattr(self._sr_raw, name, value)


def _sev(op, n=-1):
    return {'op': op, 'n': n, 'res': {'b': ''}, 'lines': [], 'stop': False, 'err': '', 'eof': -1, 'tell': -1,
            'recv': 0, 'reach': 0, 'rawpos': 0}


def _stream_err(e, ex):
    mro = [_tname(c) for c in type(ex).__mro__]
    e['err'] = 'closed' if 'builtins.ValueError' in mro else 'other'
    e['exc'] = _exc(ex)


def _patch_wsgi_stream(module):
    cls = module.BoundedStream
    if getattr(cls, '_suite_recorder_patched', None) is cls:
        return
    o_init = cls.__init__

    @functools.wraps(o_init)
    def __init__(self, *a, **k):
        if _FD[0] is None:
            return o_init(self, *a, **k)
        try:
            args = list(a)
            raw = args[0] if args else k.get('stream')
            ln = args[1] if len(args) > 1 else k.get('stream_len')
            h = _Hist('stream.wsgi', self, {'cl': _size(ln) if ln is not None else None, 'source': _tname(raw)})
            _register(self, h)
            proxy = _RawProxy(raw, h)
        except Exception as ex:     # noqa
            _META['errors'].append('wsgi stream init: %r' % (ex,))
            return o_init(self, *a, **k)
        if args:
            args[0] = proxy
        else:
            k = dict(k, stream=proxy)
        return o_init(self, *args, **k)
    cls.__init__ = __init__

    def log(h, s, e):
        try:
            e['eof'] = 1 if s.eof else 0
        except Exception as ex:     # noqa
            e['indicator_exc'] = repr(ex)[:120]
        e['reach'], e['rawpos'] = h.reach, h.ndata
        h.event(e)

    def public(name, build, result=None, op=None):
        orig = cls.__dict__[name]

        @functools.wraps(orig)
        def method(self, *a, **k):
            if _FD[0] is None:
                return orig(self, *a, **k)
            h = _hist_of(self) or _late_hist('stream.wsgi', self)
            if h.depth:
                return orig(self, *a, **k)
            try:
                e = build(*a, **k)
            except Exception as ex:     # noqa
                e = _sev(op or name)
                e['badargs'] = repr(ex)[:120]
            h.depth += 1
            try:
                res = orig(self, *a, **k)
            except StopIteration:
                h.depth -= 1
                if e['op'] == 'next':
                    e['stop'] = True
                    log(h, self, e)
                raise
            except BaseException as ex:
                h.depth -= 1
                _stream_err(e, ex)
                log(h, self, e)
                raise
            h.depth -= 1
            try:
                if result is not None:
                    result(h, e, res)
                log(h, self, e)
            except Exception as ex:     # noqa
                _META['errors'].append('wsgi stream %s: %r' % (name, ex))
            return res
        return method

    cls.read = public('read', lambda size=None: _sev('read', _size(size)), _res_bytes)
    cls.readline = public('readline', lambda limit=None: _sev('readline', _size(limit)), _res_bytes)
    cls.readlines = public('readlines', lambda hint=None: _sev('readlines', _size(hint)), _res_lines)
    nxt = public('__next__', lambda: _sev('next'), _res_bytes, op='next')
    cls.__next__ = nxt
    cls.next = nxt
    cls.exhaust = public('exhaust', lambda chunk_size=65536: _sev('exhaust'))
    cls._suite_recorder_patched = cls
    _META['classes'].append(_tname(cls))


# ---- ASGI BoundedStream --------------------------------------------------------------------------------

def _asgi_event(ev, h):
    """an event receive() returned, in BodyStreamOps' vocabulary ([t, body, hb, mb]); anything else is copied typed"""
    if type(ev) is not dict:
        return {'t': 'other', 'o': _tname(ev)}
    t = ev.get('type')
    if t == 'http.disconnect':
        return {'t': 'disc', 'body': {'b': ''}, 'hb': False, 'mb': 0}
    if t != 'http.request':
        return {'t': 'other', 'type': enc(t)}
    out = {'t': 'req', 'body': {'b': ''}, 'hb': 'body' in ev, 'mb': 0}
    if out['hb']:
        b = ev['body']
        if isinstance(b, (bytes, bytearray)):
            h.ndata += len(b)
            out['body'] = h.take(b)
        else:
            out['body'] = enc(b)
            out['t'] = 'other'
    if 'more_body' in ev:
        mb = ev['more_body']
        if mb is True or mb is False:
            out['mb'] = 2 if mb else 1
        else:
            out['mbraw'] = enc(mb)
            out['mb'] = 2 if mb else 1
    return out


def _patch_asgi_stream(module):
    cls = module.BoundedStream
    if getattr(cls, '_suite_recorder_patched', None) is cls:
        return
    o_init = cls.__init__

    @functools.wraps(o_init)
    def __init__(self, *a, **k):
        if _FD[0] is None:
            return o_init(self, *a, **k)
        try:
            args = list(a)
            receive = args[0] if args else k.get('receive')
            first = args[1] if len(args) > 1 else k.get('first_event')
            cl = args[2] if len(args) > 2 else k.get('content_length')
            h = _Hist('stream.asgi', self, {'cl': None if cl is None else _size(cl), 'first': bool(first),
                                            'first_given': first is not None, 'source': _tname(receive)})
            _register(self, h)
            if first:
                h.src.append(_asgi_event(first, h))
        except Exception as ex:     # noqa
            _META['errors'].append('asgi stream init: %r' % (ex,))
            return o_init(self, *a, **k)

        async def logged_receive():
            try:
                ev = await receive()
            except BaseException as ex:
                h.flags.add('receive_raised:' + _tname(ex))
                raise
            try:
                h.src.append(_asgi_event(ev, h))
            except Exception:     # noqa
                h.src.append({'t': 'other'})
            return ev
        if args:
            args[0] = logged_receive
        else:
            k = dict(k, receive=logged_receive)
        return o_init(self, *args, **k)
    cls.__init__ = __init__

    def log(h, s, e):
        try:
            e['eof'] = 1 if s.eof else 0
            e['tell'] = s.tell()
        except Exception as ex:     # noqa
            e['indicator_exc'] = repr(ex)[:120]
        e['recv'] = len(h.src)
        h.event(e)

    def public(name, build, result=None):
        orig = cls.__dict__[name]

        @functools.wraps(orig)
        async def method(self, *a, **k):
            if _FD[0] is None:
                return await orig(self, *a, **k)
            h = _hist_of(self) or _late_hist('stream.asgi', self)
            if h.depth:
                return await orig(self, *a, **k)
            if h.iter_open is not None:
                _stream_break(h)             # something else is called while a loop over the stream is suspended
            try:
                e = build(*a, **k)
            except Exception as ex:     # noqa
                e = _sev(name)
                e['badargs'] = repr(ex)[:120]
            h.depth += 1
            try:
                res = await orig(self, *a, **k)
            except BaseException as ex:
                h.depth -= 1
                _stream_err(e, ex)
                log(h, self, e)
                raise
            h.depth -= 1
            try:
                if result is not None:
                    result(h, e, res)
                log(h, self, e)
            except Exception as ex:     # noqa
                _META['errors'].append('asgi stream %s: %r' % (name, ex))
            return res
        setattr(cls, name, method)

    public('read', lambda size=None: _sev('read', _size(size)), _res_bytes)
    public('readall', lambda: _sev('readall'), _res_bytes)
    public('exhaust', lambda: _sev('exhaust'))

    o_close = cls.__dict__['close']

    @functools.wraps(o_close)
    def close(self):
        if _FD[0] is None:
            return o_close(self)
        h = _hist_of(self) or _late_hist('stream.asgi', self)
        if h.depth:
            return o_close(self)
        if h.iter_open is not None:
            _stream_break(h)
        e = _sev('close')
        try:
            res = o_close(self)
        except BaseException as ex:
            _stream_err(e, ex)
            log(h, self, e)
            raise
        log(h, self, e)
        return res
    cls.close = close

    o_aiter = cls.__dict__['__aiter__']

    @functools.wraps(o_aiter)
    def __aiter__(self):
        if _FD[0] is None:
            return o_aiter(self)
        h = _hist_of(self) or _late_hist('stream.asgi', self)
        if h.depth:
            return o_aiter(self)
        it = o_aiter(self)

        def lg(e, ex):
            if ex is not None:
                _stream_err(e, ex)
                return
            log(h, self, e)
        return _AIter(it, h, self, lambda op: _sev(op), lg, stepwise=True)
    cls.__aiter__ = __aiter__
    cls._suite_recorder_patched = cls
    _META['classes'].append(_tname(cls))


# ------------------------------------------------------------------------------------------------
# definition-site hook, installation, pytest hooks
# ------------------------------------------------------------------------------------------------

_ON_EXEC = {
    'falcon.util.uri': _on_uri,
    'falcon.util.misc': _on_misc,
    'falcon.util.mediatypes': _on_mediatypes,
    'falcon.util.reader': _patch_sync_reader,
    'falcon.asgi.reader': _patch_async_reader,
    'falcon.stream': _patch_wsgi_stream,
    'falcon.asgi.stream': _patch_asgi_stream,
}


class _Hook(importlib.abc.MetaPathFinder):
    """runs _ON_EXEC[name](module) right after the defining module has been executed"""

    def find_spec(self, name, path=None, target=None):
        if name not in _ON_EXEC:
            return None
        spec = None
        for f in sys.meta_path:
            if f is self or not hasattr(f, 'find_spec'):
                continue
            spec = f.find_spec(name, path, target)
            if spec is not None:
                break
        if spec is None or spec.loader is None or not hasattr(spec.loader, 'exec_module'):
            return spec
        loader = spec.loader
        o_exec = loader.exec_module

        def exec_module(module):
            o_exec(module)
            try:
                _ON_EXEC[name](module)
            except Exception as ex:     # noqa
                _META['errors'].append('hook %s: %r' % (name, ex))
        loader.exec_module = exec_module
        return spec


def _sweep():
    """no falcon module may still hold an original: patch what is found and say so"""
    for mname, mod in list(sys.modules.items()):
        if not (mname == 'falcon' or mname.startswith('falcon.')) or mod is None:
            continue
        for attr, val in list(getattr(mod, '__dict__', {}).items()):
            try:
                w = _WRAP.get(id(val))
            except Exception:     # noqa
                continue
            if w is not None and w._suite_recorder_original is val:
                setattr(mod, attr, w)
                _META['late_patched'].append('%s.%s' % (mname, attr))


def install():
    if _INSTALLED[0]:
        return
    d = os.environ.get(ENV)
    if not d:
        return
    _INSTALLED[0] = True
    os.makedirs(d, exist_ok=True)
    already = [m for m in _ON_EXEC if m in sys.modules]
    sys.meta_path.insert(0, _Hook())
    for m in already:                       # imported before the plugin (not expected): patch now, the sweep does the rest
        try:
            _ON_EXEC[m](sys.modules[m])
            _META['hooked'].append(m + ' (late)')
        except Exception as ex:     # noqa
            _META['errors'].append('late %s: %r' % (m, ex))
    _FD[0] = os.open(os.path.join(d, '%d.jsonl' % os.getpid()), os.O_WRONLY | os.O_APPEND | os.O_CREAT, 0o644)
    import atexit
    atexit.register(_finish)


_FINISHED = [False]


def _finish():
    if _FINISHED[0] or _FD[0] is None:
        return
    _FINISHED[0] = True
    flush_histories()
    _write({'kind': 'count', 'pid': os.getpid(), 'counts': dict(_COUNT), 'distinct_fn_records': len(_SEEN)})
    _write(dict(_META, kind='meta', pid=os.getpid()))


install()       # at plugin import: before conftest.py imports falcon


def pytest_configure(config):
    install()
    if _FD[0] is not None:
        import falcon               # noqa: F401
        import falcon.asgi          # noqa: F401
        import falcon.asgi.reader   # noqa: F401
        import falcon.asgi.stream   # noqa: F401
        import falcon.media         # noqa: F401
        import falcon.testing       # noqa: F401
        import falcon.util.reader   # noqa: F401
        _sweep()


def pytest_runtest_logstart(nodeid, location):
    _NODE[0] = nodeid


def pytest_runtest_logfinish(nodeid, location):
    flush_histories()


def pytest_sessionfinish(session, exitstatus):
    _sweep()
    _finish()
