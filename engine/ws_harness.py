"""Fake ASGI WebSocket server, independent legality monitor and scripted-session runner (C17).

Nothing here comes from falcon.testing.  A session is a list of *actions* (the vocabulary of
spec/WebSocket.tla):

    {'a': 'op', 'op': 'accept'|'close'|'send_text'|'send_data'|'send_media'|
                      'receive_text'|'receive_data'|'receive_media', ..args.., 'prop': bool, 'f': fault}
    {'a': 'raise', 'x': 'http'|'status'|'boom', 'f': fault}      responder raises
    {'a': 'return', 'f': fault}                                  responder returns
    {'a': 'arrive', 'k': 'text'|'bin'|'disc', 'v': payload id | disconnect code}

executed at *quiescence granularity*: after every stimulus the event loop runs until nothing
moves any more, so what falcon's receive pump knows is a function of the history and not of
scheduling (scheduling is C18's business).  The runner only drives the real code through
``falcon.asgi.App.__call__`` and records what it sees; it decides nothing.
"""
import asyncio
import json

# payload pools: id -> concrete payload.  Text payloads are valid JSON documents so that
# receive_media on a text frame has a defined value (json.loads is the trusted decoder).
TEXT = {1: '{"a": 1}', 2: '"éx\U0001f600"', 3: '[]'}
DATA = {1: b'\x00\xff\x10', 2: b'', 3: b'\x7f[1, 2]\n'}
# objects for send_media / results of receive_media, by id
MEDIA = {1: {'a': 1}, 2: 'éx\U0001f600', 3: []}
BIN_MEDIA = {1: {'a': 1}, 2: [1, 2], 3: 'z'}          # media objects sent as BINARY
SUBPROTO = 'wamp'
ACCEPT_HEADERS = [('X-Verif', 'a1'), ('Set-Cookie', 'k=v')]
REASON = 'because'

PASSES = 14       # loop iterations run after each stimulus (pump start + cancel need < 6)


class LostError(OSError):
    """What a spec-2.4 server raises from send() on a closed connection (an IOError subclass)."""


class BinHandler:
    """Harness-owned binary media handler (msgpack is not installed): objects go out as b'M' + JSON,
    incoming frames come back as {'raw': [byte values]} (total, so every binary frame has a value)."""

    def serialize(self, media):
        return b'M' + json.dumps(media, sort_keys=True).encode()

    def deserialize(self, payload):
        return {'raw': list(payload)}


class Monitor:
    """ASGI WebSocket (server side) legality of the application's send() stream, written from the
    ASGI HTTP & WebSocket spec text.  `errors` lists violations; `log` every attempt."""

    def __init__(self, ver):
        self.ver = ver                      # (2, n)
        self.state = 'connecting'           # connecting -> open -> closed
        self.errors = []
        self.log = []                       # abstract events incl. attempts the server refused
        self.accepts = 0
        self.closes = 0
        self.lost_signalled = False         # the server already raised a connection-lost error

    def check(self, ev):
        t = ev.get('type')
        e = self.errors
        if not isinstance(ev, dict) or not isinstance(t, str):
            e.append('event is not a dict with a str type')
            return
        if t == 'websocket.accept':
            if self.state != 'connecting':
                e.append('accept in state %s' % self.state)
            if self.accepts >= 1:
                e.append('second accept')
            sp = ev.get('subprotocol')
            if sp is not None and not isinstance(sp, str):
                e.append('subprotocol is not a str')
            if 'headers' in ev:
                if self.ver < (2, 1):
                    e.append('accept headers on spec version < 2.1')
                for h in ev['headers']:
                    if not (len(h) == 2 and isinstance(h[0], bytes) and isinstance(h[1], bytes)):
                        e.append('accept header is not a pair of byte strings')
                    elif h[0] != h[0].lower():
                        e.append('accept header name not lower-cased')
                    elif h[0] == b'sec-websocket-protocol':
                        e.append('sec-websocket-protocol among accept headers')
            if set(ev) - {'type', 'subprotocol', 'headers'}:
                e.append('unknown keys in accept')
        elif t == 'websocket.send':
            if self.state != 'open':
                e.append('send in state %s' % self.state)
            b, x = ev.get('bytes'), ev.get('text')
            if (b is None) == (x is None):
                e.append('send needs exactly one of bytes/text')
            if b is not None and not isinstance(b, bytes):
                e.append('bytes payload is not bytes')
            if x is not None and not isinstance(x, str):
                e.append('text payload is not str')
            if set(ev) - {'type', 'bytes', 'text'}:
                e.append('unknown keys in send')
        elif t == 'websocket.close':
            if self.state == 'closed' or self.closes >= 1:
                e.append('close after close')
            c = ev.get('code', 1000)
            if not isinstance(c, int) or isinstance(c, bool):
                e.append('close code is not an int')
            if 'reason' in ev:
                if self.ver < (2, 3):
                    e.append('close reason on spec version < 2.3')
                if not isinstance(ev['reason'], str):
                    e.append('close reason is not a str')
            if set(ev) - {'type', 'code', 'reason'}:
                e.append('unknown keys in close')
        else:
            e.append('unknown event type %r' % (t,))

    def accepted_by_server(self, ev):
        t = ev.get('type')
        # only events the server took count: a send() that raised left the connection as it was
        if t == 'websocket.accept':
            self.accepts += 1
            if self.state == 'connecting':
                self.state = 'open'
        elif t == 'websocket.close':
            self.closes += 1
            self.state = 'closed'


def abstract_event(ev, ok):
    """Projection of a sent ASGI event onto the specification's event record."""
    t = ev.get('type', '?').split('.')[-1]
    r = {'t': t, 'code': 0, 'rs': 0, 'k': '', 'v': 0, 'sp': 0, 'hd': 0, 'ok': bool(ok)}
    if t == 'accept':
        if ev.get('subprotocol') is not None:
            r['sp'] = 1 if ev['subprotocol'] == SUBPROTO else 9
        if 'headers' in ev:
            want = [(k.lower().encode('ascii'), v.encode('ascii')) for k, v in ACCEPT_HEADERS]
            r['hd'] = 1 if [tuple(h) for h in ev['headers']] == want else 9
    elif t == 'close':
        r['code'] = ev.get('code', 1000)
        if 'reason' in ev:
            r['rs'] = 1 if ev['reason'] == REASON else (2 if ev['reason'] else 9)
    elif t == 'send':
        if ev.get('text') is not None:
            r['k'] = 'text'
            r['v'] = text_id(ev['text'])
        elif ev.get('bytes') is not None:
            r['k'] = 'bin'
            r['v'] = data_id(ev['bytes'])
    return r


def text_id(s):
    """id of a text payload: literal pool first, else (media) by trusted JSON decoding."""
    for i, t in TEXT.items():
        if s == t:
            return i
    try:
        obj = json.loads(s)
    except (ValueError, TypeError):
        return -99
    for i, m in MEDIA.items():
        if obj == m and type(obj) is type(m):
            return i
    return -99


def data_id(b):
    for i, d in DATA.items():
        if b == d:
            return i
    if isinstance(b, bytes) and b.startswith(b'M'):
        try:
            obj = json.loads(b[1:].decode())
        except ValueError:
            return -99
        for i, m in BIN_MEDIA.items():
            if obj == m and type(obj) is type(m):
                return 10 + i
    return -99


class FakeServer:
    def __init__(self, ver, first='connect'):
        self.mon = Monitor(ver)
        self.first = first
        self.started = False
        self.avail = []
        self.waiter = None
        self.armed = 'none'          # fault kind for the next send attempt
        self.sticky = None           # kind raised by every later attempt once the connection is lost
        self.attempts = 0
        self.step_sent = []          # abstract events attempted during the current action
        self.fired = 'none'          # fault kind actually raised by the armed one-shot during the current action

    async def receive(self):
        if not self.started:
            self.started = True
            if self.first == 'connect':
                return {'type': 'websocket.connect'}
            return {'type': 'websocket.disconnect', 'code': 1006}
        if not self.avail:
            self.waiter = asyncio.get_running_loop().create_future()
            try:
                await self.waiter
            finally:
                self.waiter = None
        return self.avail.pop(0)

    def arrive(self, ev):
        self.avail.append(ev)
        if self.waiter is not None and not self.waiter.done():
            self.waiter.set_result(None)

    def _raise(self, kind):
        if kind == 'lost':
            raise LostError('connection closed')
        if kind == 'lost1000':
            raise Exception('sent 1000 (OK); then received 1000 (OK) -- code = 1000 (OK), no reason')
        if kind == 'badcode':
            raise Exception('Invalid close code 1011 (must be 1000 or from [3000, 4999])')
        raise RuntimeError('server refused the message')

    async def send(self, ev):
        self.attempts += 1
        self.mon.check(ev)
        kind = self.sticky
        if kind is None and self.armed != 'none':
            kind, self.armed = self.armed, 'none'
            if kind == 'badcode' and not (ev.get('type') == 'websocket.close'):
                kind = 'other'
            if kind in ('lost', 'lost1000'):
                self.sticky = kind
            self.fired = kind
        ok = kind is None
        a = abstract_event(ev, ok)
        self.mon.log.append(a)
        self.step_sent.append(a)
        if not ok:
            self._raise(kind)
        self.mon.accepted_by_server(ev)


class Boom(Exception):
    pass


def classify(ex):
    from falcon import errors
    if isinstance(ex, errors.WebSocketDisconnected):
        return 'wsd'
    if isinstance(ex, errors.OperationNotAllowed):
        return 'ona'
    if isinstance(ex, errors.PayloadTypeError):
        return 'payload'
    if isinstance(ex, (LostError, RuntimeError)) and type(ex) in (LostError, RuntimeError):
        return 'server'
    if type(ex) is Exception:
        return 'server'
    if type(ex) is ValueError:
        return 'value'
    if type(ex) is TypeError:
        return 'type'
    return 'other:' + type(ex).__name__


async def do_op(ws, act):
    """One public WebSocket call.  Returns (result class, value)."""
    import falcon
    op = act['op']
    if op == 'accept':
        kw = {}
        if act.get('sp', 0) == 1:
            kw['subprotocol'] = SUBPROTO
        elif act.get('sp', 0) == 2:
            kw['subprotocol'] = 7
        if act.get('hd', 0) == 1:
            kw['headers'] = list(ACCEPT_HEADERS)
        elif act.get('hd', 0) == 2:
            kw['headers'] = {'Sec-WebSocket-Protocol': SUBPROTO}
        await ws.accept(**kw)
        return 'ok', 0
    if op == 'close':
        args = []
        code = act.get('code', 0)
        if code or act.get('rs', 0):
            args.append(code or None)
        if act.get('rs', 0):
            args.append(REASON)
        await ws.close(*args)
        return 'ok', 0
    if op == 'send_text':
        await ws.send_text(TEXT[act['v']] if act['v'] else b'not-a-str')
        return 'ok', 0
    if op == 'send_data':
        v = act['v']
        payload = 'not-bytes' if not v else DATA[v]
        if v and act.get('alt'):
            payload = (bytearray, memoryview)[act['alt'] - 1](payload)
        await ws.send_data(payload)
        return 'ok', 0
    if op == 'send_media':
        if act.get('k', 'text') == 'text':
            await ws.send_media(MEDIA[act['v']])
        else:
            await ws.send_media(BIN_MEDIA[act['v'] - 10], falcon.WebSocketPayloadType.BINARY)
        return 'ok', 0
    if op == 'receive_text':
        r = await ws.receive_text()
        return 'ok', (text_id(r) if isinstance(r, str) else -98)
    if op == 'receive_data':
        r = await ws.receive_data()
        return 'ok', (data_id(r) if isinstance(r, bytes) else -98)
    if op == 'receive_media':
        r = await ws.receive_media()
        for i, m in MEDIA.items():
            if r == m and type(r) is type(m):
                return 'ok', i
        if isinstance(r, dict) and set(r) == {'raw'}:        # a binary frame through the harness handler
            return 'ok', 20 + data_id(bytes(r['raw']))
        return 'ok', -99
    raise ValueError(op)


class Session:
    """Per-connection script state, handed to the generated app through the ASGI scope."""

    def __init__(self, mw):
        self.gate = None         # future the responder is parked on; the runner resolves it with the next step
        self.result = None       # (class, value) of the step in progress, once it returned
        self.mw = mw
        self.phase = 'framework'


class Resource:
    async def on_websocket(self, req, ws, **params):
        import falcon
        s = req.scope['verif']
        s.phase = 'responder'
        loop = asyncio.get_running_loop()
        while True:
            s.gate = loop.create_future()
            act = await s.gate
            s.gate = None
            if act['a'] == 'return':
                s.result = ('ok', 0)
                s.phase = 'framework'
                return
            if act['a'] == 'raise':
                s.result = ('ok', 0)
                s.phase = 'framework'
                if act['x'] == 'http':
                    raise falcon.HTTPBadRequest()
                if act['x'] == 'status':
                    raise falcon.HTTPStatus(falcon.HTTP_204)
                raise Boom('boom')
            try:
                s.result = await do_op(ws, act)
            except Exception as ex:         # noqa: the script records whatever the call raised
                c = classify(ex)
                s.result = (c, getattr(ex, 'code', 0) if c == 'wsd' else 0)
                if act.get('prop'):
                    s.phase = 'framework'
                    raise


class NoResponder:
    async def on_get(self, req, resp):
        pass


class Middleware:
    async def process_request_ws(self, req, ws):
        import falcon
        s = req.scope['verif']
        if s.mw == 'accept':
            await ws.accept()
        elif s.mw == 'deny':
            raise falcon.HTTPForbidden()

    async def process_resource_ws(self, req, ws, resource, params):
        s = req.scope['verif']
        if s.mw == 'resacc':
            await ws.accept()


_apps = {}


def get_app(maxq, mw, handler, errcode):
    """Generated app per configuration (cached; the per-session script travels in the scope)."""
    import falcon
    import falcon.asgi
    key = (maxq, mw != 'none', handler, errcode)
    if key in _apps:
        return _apps[key]
    app = falcon.asgi.App(middleware=[Middleware()] if mw != 'none' else None)
    app.ws_options.max_receive_queue = maxq
    app.ws_options.error_close_code = errcode
    app.ws_options.media_handlers[falcon.WebSocketPayloadType.BINARY] = BinHandler()
    app.add_route('/ws', Resource())
    app.add_route('/noresp', NoResponder())
    if handler == 'close':
        async def h(req, resp, ex, params, ws=None):
            await ws.close(4001)
        app.add_error_handler(Boom, h)
    elif handler == 'noop':
        async def h(req, resp, ex, params, ws=None):
            return
        app.add_error_handler(Boom, h)
    elif handler == 'http':
        async def h(req, resp, ex, params, ws=None):
            raise falcon.HTTPBadRequest()
        app.add_error_handler(Boom, h)
    _apps[key] = app
    return app


def make_scope(ver, path, session):
    return {'type': 'websocket', 'asgi': {'version': '3.0', 'spec_version': '%d.%d' % ver},
            'http_version': '1.1', 'scheme': 'ws', 'path': path, 'raw_path': path.encode(), 'query_string': b'',
            'root_path': '', 'headers': [(b'host', b'verif.test')], 'client': ('127.0.0.1', 40000),
            'server': ('127.0.0.1', 80), 'subprotocols': [SUBPROTO, 'other'], 'verif': session}


def client_event(act):
    if act['k'] == 'text':
        return {'type': 'websocket.receive', 'text': TEXT[act['v']]}
    if act['k'] == 'bin':
        return {'type': 'websocket.receive', 'bytes': DATA[act['v']]}
    ev = {'type': 'websocket.disconnect'}
    if act['v']:
        ev['code'] = act['v']
    return ev


async def _settle(n=PASSES):
    for _ in range(n):
        await asyncio.sleep(0)


FIELDS = {'a': 'init', 'op': '', 'sp': 0, 'hd': 0, 'code': 0, 'rs': 0, 'k': '', 'v': 0, 'prop': False, 'f': 'none',
          'x': '', 'mw': 'none', 'route': 'ok', 'hk': 'default', 'ec': 1011, 'first': 'connect',
          'r': 'none', 'rv': 0, 'evs': [], 'cl': 'P', 'esc': False, 'pre': '', 'fin': False}


async def run_session_async(cfg, actions):
    """cfg: ver (int 20..24), maxq, route ('ok'|'miss'|'noresp'), mw, hk, ec, first, f0.
    Returns (events, info): events = one record per executed action in the vocabulary of
    spec/WebSocket.tla (parameters as given, r/rv/evs/esc/fin as OBSERVED), beginning with the
    'start' record; info = monitor verdicts and bookkeeping."""
    ver = (cfg['ver'] // 10, cfg['ver'] % 10)
    srv = FakeServer(ver, cfg.get('first', 'connect'))
    ses = Session(cfg.get('mw', 'none'))
    hk, ec = cfg.get('hk', 'default'), cfg.get('ec', 1011)
    app = get_app(cfg['maxq'], cfg.get('mw', 'none'), hk, ec)
    path = {'ok': '/ws', 'miss': '/nothing', 'noresp': '/noresp'}[cfg.get('route', 'ok')]
    out = []
    srv.armed = cfg.get('f0', 'none')          # fault on a send made before the responder runs
    task = asyncio.ensure_future(app(make_scope(ver, path, ses), srv.receive, srv.send))
    await _settle()
    srv.armed = 'none'

    def take(rec, r='none', v=0):
        o = dict(FIELDS)
        o.update({k: rec[k] for k in rec if k in FIELDS})
        o.update({'hk': hk, 'ec': ec})
        fin = task.done()
        o.update({'r': r, 'rv': v or 0, 'evs': srv.step_sent, 'fin': fin,
                  'esc': bool(fin and not task.cancelled() and task.exception() is not None)})
        if 'f' in rec or rec.get('a') == 'start':
            o['f'] = srv.fired           # the fault that really fired (an armed fault no send met has no effect)
        srv.step_sent = []
        srv.fired = 'none'
        out.append(o)
        return o

    take({'a': 'start', 'first': cfg.get('first', 'connect'), 'mw': cfg.get('mw', 'none'),
          'route': cfg.get('route', 'ok'), 'f': cfg.get('f0', 'none')})
    blocked = None
    skipped = 0
    for act in actions:
        if act['a'] == 'arrive':
            if task.done() or (act['k'] != 'disc' and srv.mon.state != 'open'):
                skipped += 1        # a server has data frames only on an open connection
                continue
            srv.arrive(client_event(act))
            await _settle()
            if blocked is not None and ses.result is not None:
                r, v = ses.result
                take(dict(act, op=blocked['op'], prop=blocked.get('prop', False)), r, v)
                blocked = None
            else:
                take(act)
            continue
        if task.done() or blocked is not None or ses.gate is None:
            skipped += 1            # the script cannot take this step now (finished / waiting in receive)
            continue
        srv.armed = act.get('f', 'none')
        ses.result = None
        ses.gate.set_result(act)
        await _settle()
        srv.armed = 'none'
        if ses.result is not None:
            take(act, *ses.result)
        else:
            blocked = act
            take(act, 'blocked')
    await _settle()
    finished = task.done()
    escaped = 'none'
    if not finished:
        task.cancel()
        try:
            await task
        except BaseException:      # noqa
            pass
    elif task.exception() is not None:
        escaped = classify(task.exception())
    leftover = [t for t in asyncio.all_tasks() if t is not asyncio.current_task() and not t.done()]
    for t in leftover:
        t.cancel()
    if leftover:
        await asyncio.gather(*leftover, return_exceptions=True)
    info = {'finished': finished, 'escaped': escaped, 'leftover': len(leftover) if finished else 0,
            'monitor': list(srv.mon.errors), 'late': srv.step_sent, 'skipped': skipped, 'attempts': srv.attempts}
    return out, info


_loop = None


def run_session(cfg, actions):
    global _loop
    if _loop is None or _loop.is_closed():
        _loop = asyncio.new_event_loop()
    return _loop.run_until_complete(run_session_async(cfg, actions))


# ==== C17, payload dimension (spec/WebSocketMedia.tla): repeated frames, application-side mutation ==========
# One application (falcon's own JSONHandlerWS for TEXT and MessagePackHandlerWS for BINARY), several
# connections, the vocabulary of WebSocketMedia.tla:
#     {'a': 'open'|'close', 'c': conn}             {'a': 'csend', 'c': conn, 'k': 'text'|'bin', 'b': base id}
#     {'a': 'recv', 'c': conn}                      {'a': 'mutate', 'o': object, 'm': mark, 'wh': 'top'|'deep'}
#     {'a': 'make', 'b': base id}                   {'a': 'send', 'c': conn, 'o': object, 'k': 'text'|'bin'}
# A value of the specification is {'b': base id, 'ext': [marks appended at the top], 'in': [marks appended to
# the nested list]}; base ids: b % 3 = 1 scalar, 2 list, 0 dict; b > 3: the encoding is longer than 128 characters.
# The runner drives the real code and abstracts what it sees with trusted codecs (json, msgpack); it decides nothing.

_LONG = 'é' + 'x' * 150


def media_base(b):
    """A NEW concrete object for base id b (mutable bases end in / contain a nested list [0])."""
    return {1: 7, 2: [1, 'a', [0]], 3: {'a': 1, 'n': [0]},
            4: _LONG, 5: [_LONG, 2.5, None, [0]], 6: {'a': _LONG, 'z': {'y': [True]}, 'n': [0]}}[b]


_NPREFIX = {2: 2, 5: 3}
BAD_VALUE = {'b': -1, 'ext': [], 'in': []}


def _marks(xs):
    return all(type(x) is int for x in xs)


def media_concrete(v):
    """specification value -> NEW concrete object."""
    obj = media_base(v['b'])
    for m in v['in']:
        (obj[_NPREFIX[v['b']]] if isinstance(obj, list) else obj['n']).append(m)
    for i, m in enumerate(v['ext']):
        if isinstance(obj, list):
            obj.append(m)
        else:
            obj['_m%d' % (i + 1)] = m
    return obj


def media_abstract(obj):
    """concrete object -> specification value (b = -1: not a value of the vocabulary)."""
    for b in (1, 4):
        if type(obj) is type(media_base(b)) and obj == media_base(b):
            return {'b': b, 'ext': [], 'in': []}
    if type(obj) is list:
        for b, n in _NPREFIX.items():
            base = media_base(b)
            if len(obj) > n and obj[:n] == base[:n] and type(obj[n]) is list and obj[n][:1] == [0] \
                    and _marks(obj[n][1:]) and _marks(obj[n + 1:]) and repr(obj[:n]) == repr(base[:n]):
                return {'b': b, 'ext': list(obj[n + 1:]), 'in': list(obj[n][1:])}
    if type(obj) is dict:
        for b in (3, 6):
            base = media_base(b)
            rest = {k: x for k, x in obj.items() if k != 'n' and not (isinstance(k, str) and k.startswith('_m'))}
            base.pop('n')
            ext = [obj.get('_m%d' % (i + 1)) for i in range(len(obj) - len(rest) - 1)]
            if rest == base and repr(sorted(rest.items())) == repr(sorted(base.items())) and type(obj.get('n')) is list \
                    and obj['n'][:1] == [0] and _marks(obj['n'][1:]) and _marks(ext):
                return {'b': b, 'ext': ext, 'in': list(obj['n'][1:])}
    return dict(BAD_VALUE)


def media_mutable(obj):
    return isinstance(obj, (list, dict))


def _msgpack():
    """The msgpack package, or the copy pip vendors (the same library, pure-Python fallback)."""
    try:
        import msgpack
        return msgpack
    except ImportError:
        from pip._vendor import msgpack
        return msgpack


def media_encode(k, obj):
    """Client side: the frame for an object (trusted encoders)."""
    if k == 'text':
        return {'type': 'websocket.receive', 'text': json.dumps(obj, ensure_ascii=False)}
    return {'type': 'websocket.receive', 'bytes': _msgpack().packb(obj, use_bin_type=True)}


def media_decode_sent(ev, k):
    """Server side: the value of a frame the application sent (trusted decoders); kind must be k."""
    try:
        if k == 'text' and isinstance(ev.get('text'), str) and ev.get('bytes') is None:
            return media_abstract(json.loads(ev['text']))
        if k == 'bin' and isinstance(ev.get('bytes'), bytes) and ev.get('text') is None:
            return media_abstract(_msgpack().unpackb(ev['bytes'], raw=False))
    except Exception:      # noqa: undecodable frame = not a value of the vocabulary
        pass
    return dict(BAD_VALUE)


class MediaServer(FakeServer):
    def __init__(self, ver):
        FakeServer.__init__(self, ver)
        self.raw = []

    async def send(self, ev):
        self.raw.append(ev)
        self.mon.check(ev)
        self.mon.accepted_by_server(ev)


class MediaConn:
    def __init__(self, world):
        self.world = world
        self.gate = None
        self.result = None


class MediaResource:
    async def on_websocket(self, req, ws):
        import falcon
        s = req.scope['verif']
        await ws.accept()
        loop = asyncio.get_running_loop()
        while True:
            s.gate = loop.create_future()
            act = await s.gate
            s.gate = None
            if act['a'] == 'close':
                s.result = ('ok', None)
                return
            try:
                if act['a'] == 'recv':
                    s.result = ('ok', await ws.receive_media())
                else:
                    pt = falcon.WebSocketPayloadType.TEXT if act['k'] == 'text' else falcon.WebSocketPayloadType.BINARY
                    await ws.send_media(s.world[act['o'] - 1], pt)
                    s.result = ('ok', None)
            except Exception as ex:         # noqa: recorded, never judged here
                s.result = ('exc', repr(ex))


_media_apps = {}


def get_media_app(maxq):
    import sys
    import falcon
    import falcon.asgi
    import falcon.media
    if maxq not in _media_apps:
        had = 'msgpack' in sys.modules
        if not had:
            sys.modules['msgpack'] = _msgpack()       # falcon's handler does `import msgpack` when constructed
        try:
            app = falcon.asgi.App()
            app.ws_options.max_receive_queue = maxq
            app.ws_options.media_handlers[falcon.WebSocketPayloadType.BINARY] = falcon.media.MessagePackHandlerWS()
        finally:
            if not had:
                sys.modules.pop('msgpack', None)
        app.add_route('/media', MediaResource())
        _media_apps[maxq] = app
    return _media_apps[maxq]


async def run_media_session_async(cfg, actions):
    """cfg: maxq.  Returns (events, info): one record per executed action with parameters as given and
    v / shared / wv / heap as OBSERVED (vocabulary of spec/WebSocketMedia.tla)."""
    app = get_media_app(cfg['maxq'])
    world = []                    # every object the application obtained, by identity (index + 1 = object id)
    conns = {}
    out = []
    errors = []

    def take(act, **obs):
        o = {'a': act['a'], 'c': act.get('c', 0), 'o': act.get('o', 0), 'k': act.get('k', ''), 'b': act.get('b', 0),
             'm': act.get('m', 0), 'wh': act.get('wh', ''), 'v': dict(BAD_VALUE, b=0), 'wv': dict(BAD_VALUE, b=0),
             'shared': False}
        o.update(obs)
        o['heap'] = [media_abstract(x) for x in world]
        out.append(o)

    for act in actions:
        a = act['a']
        if a == 'open':
            srv = MediaServer((2, 4))
            ses = MediaConn(world)
            task = asyncio.ensure_future(app(make_scope((2, 4), '/media', ses), srv.receive, srv.send))
            conns[act['c']] = (srv, ses, task)
            await _settle()
            if srv.mon.state != 'open' or ses.gate is None:
                errors.append('connection %d was not accepted' % act['c'])
            take(act)
        elif a == 'csend':
            conns[act['c']][0].arrive(media_encode(act['k'], media_base(act['b'])))
            await _settle()
            take(act)
        elif a == 'mutate':
            obj = world[act['o'] - 1]
            if not media_mutable(obj) or media_abstract(obj)['b'] < 0:
                errors.append('object %d is not a mutable value of the vocabulary (the session deviated earlier)' % act['o'])
                take(act)
                break
            if act['wh'] == 'deep':
                (next(x for x in obj if type(x) is list) if isinstance(obj, list) else obj['n']).append(act['m'])
            elif isinstance(obj, list):
                obj.append(act['m'])
            else:
                obj['_m%d' % (sum(1 for k in obj if isinstance(k, str) and k.startswith('_m')) + 1)] = act['m']
            take(act, v=media_abstract(obj))
        elif a == 'make':
            world.append(media_base(act['b']))
            take(dict(act, o=len(world)), v=media_abstract(world[-1]))
        else:
            srv, ses, task = conns[act['c']]
            if ses.gate is None or task.done():
                errors.append('connection %d cannot take %s' % (act['c'], a))
                break
            ses.result = None
            nraw = len(srv.raw)
            ses.gate.set_result(act)
            await _settle()
            if a == 'close':
                take(act)
            elif a == 'recv':
                if ses.result is None:
                    take(dict(act, o=len(world) + 1), v=dict(BAD_VALUE, b=-2))      # still waiting: the frame never arrived
                    break
                if ses.result[0] != 'ok':
                    take(dict(act, o=len(world) + 1), v=dict(BAD_VALUE, b=-3))
                    errors.append(ses.result[1])
                    break
                obj = ses.result[1]
                shared = media_mutable(obj) and any(obj is x for x in world)
                world.append(obj)
                take(dict(act, o=len(world)), v=media_abstract(obj), shared=shared)
            else:
                sent = srv.raw[nraw:]
                if len(sent) == 1 and ses.result and ses.result[0] == 'ok':
                    take(act, v=media_abstract(world[act['o'] - 1]), wv=media_decode_sent(sent[0], act['k']))
                else:
                    take(act, v=media_abstract(world[act['o'] - 1]), wv=dict(BAD_VALUE, b=-2 - len(sent)))
                    if ses.result and ses.result[0] != 'ok':
                        errors.append(ses.result[1])
                    break
    monitor = []
    for c, (srv, ses, task) in conns.items():
        if not task.done():
            task.cancel()
            try:
                await task
            except BaseException:      # noqa
                pass
        monitor.extend(srv.mon.errors)
    leftover = [t for t in asyncio.all_tasks() if t is not asyncio.current_task() and not t.done()]
    for t in leftover:
        t.cancel()
    if leftover:
        await asyncio.gather(*leftover, return_exceptions=True)
    return out, {'monitor': monitor, 'errors': errors}


def run_media_session(cfg, actions):
    global _loop
    if _loop is None or _loop.is_closed():
        _loop = asyncio.new_event_loop()
    return _loop.run_until_complete(run_media_session_async(cfg, actions))
