"""Check context: accounting, violations / known findings, evidence, exit status."""
import hashlib
import json
import os
import random
import sys
import tempfile
import time
import traceback

from . import tlc as _tlc

VERIF = os.path.dirname(os.path.dirname(os.path.abspath(__file__)))
EVIDENCE_DIR = os.path.join(VERIF, 'evidence')
REPLAY_DIR = os.path.join(VERIF, 'replay')
# A run against a scratch tree (FALCON_ROOT=<mutant copy or worktree>) is an experiment on the machinery, not evidence
# about /repo: keep it out of the committed evidence directory (replay/ is git-ignored).
if os.environ.get('VERIF_EVIDENCE_DIR'):
    EVIDENCE_DIR = os.environ['VERIF_EVIDENCE_DIR']
elif os.path.realpath(os.environ.get('FALCON_ROOT', '/repo')) != os.path.realpath('/repo'):
    EVIDENCE_DIR = os.path.join(REPLAY_DIR, 'evidence-scratch')
FINDINGS = os.path.join(VERIF, 'KNOWN_FINDINGS.jsonl')


def canon(x):
    return json.dumps(x, sort_keys=True, default=repr, separators=(',', ':'))


def digest(x):
    return hashlib.sha1(canon(x).encode()).hexdigest()[:12]


def load_findings(pid):
    out = []
    if os.path.exists(FINDINGS):
        for line in open(FINDINGS):
            line = line.strip()
            if not line or line.startswith('#') or line.startswith('fixed:'):
                continue
            rec = json.loads(line)
            if rec.get('property') == pid and rec.get('status') == 'known':
                out.append(rec)
    return out


class MachineryError(Exception):
    pass


class Ctx:
    def __init__(self, pid, tier, seed):
        self.pid, self.tier, self.seed = pid, tier, seed
        self.rng = random.Random(seed)
        self.t0 = time.time()
        self.states = 0
        self.transitions = 0
        self.tlc_runs = []
        self.evaluations = 0
        self.nontrivial = set()
        self.samples = []
        self.max_samples = 5
        self.traces_validated = 0
        self.violations = []
        self.known = load_findings(pid)
        self.known_hit = {}
        self.details = []
        self.notes = []
        self.assumptions = []
        self.trusted_base = []
        self.rule = ''
        self.exhaustive = False
        self.extra = {}
        self.scratch = tempfile.mkdtemp(prefix='verif-%s-' % pid)

    # ---- tiers -------------------------------------------------------------
    @property
    def quick(self):
        return self.tier == 'quick'

    def pick(self, quick, thorough):
        return quick if self.tier == 'quick' else thorough

    # ---- TLC ----------------------------------------------------------------
    def tlc(self, module, cfg=None, *, must_hold=True, count=True, **kw):
        """Run TLC; a violated invariant in a model that must hold is a machinery failure
        (the specification itself is wrong), never a VIOLATION of the code."""
        r = _tlc.run(module, cfg, **kw)
        s = r.summary()
        s['module'] = module
        self.tlc_runs.append(s)
        if count:
            self.states += r.distinct
            self.transitions += r.generated
        if must_hold and r.violated:
            raise MachineryError('model %s violates %s:\n%s' % (module, r.violated, _tlc.counterexample(r.out)))
        return r

    def require_coverage(self, r, actions):
        """Vacuity guard: every named action must have fired in run r (needs coverage=True)."""
        missing = [a for a in actions if r.coverage.get(a, (0, 0))[1] == 0]
        if missing:
            raise MachineryError('vacuous model run: actions never taken: %s' % missing)

    def judge(self, module, traces, cfg=None, *, env=None, chunk=4000, tag='VERDICT', **kw):
        """Judge recorded traces with a *Trace.tla module.  The module reads the JSON list
        at IOEnv.TRACE_FILE, makes each trace an initial state (tid) and prints
        <<"VERDICT", tid, verdict>> for every complete run.  Returns one verdict per trace:
        "ok" if some run ended ok, else the non-ok verdict of the run (the longest prefix is
        encoded by the judge in the verdict string)."""
        verdicts = []
        kw.setdefault('workers', 8)
        for off in range(0, len(traces), chunk):
            part = traces[off:off + chunk]
            path = os.path.join(self.scratch, 'traces-%s-%d.json' % (module, off))
            with open(path, 'w') as f:
                json.dump(part, f)
            e = dict(env or {})
            e['TRACE_FILE'] = path
            r = self.tlc(module, cfg, env=e, **kw)
            got = {}
            for t, fields in r.tuples:
                if t == tag and len(fields) >= 2:
                    tid, v = fields[0], fields[1]
                    prog = fields[2] if len(fields) > 2 and isinstance(fields[2], int) else -1
                    cur = got.get(tid)
                    # prefer ok; among failing runs prefer the one that consumed the longest prefix
                    if cur is None or (cur[0] != 'ok' and (v == 'ok' or prog > cur[1])):
                        got[tid] = (v, prog)
            for i in range(len(part)):
                if i + 1 not in got:
                    raise MachineryError('judge %s printed no verdict for trace %d (of %d)\n%s'
                                         % (module, i + 1, len(part), r.out[-3000:]))
                verdicts.append(got[i + 1][0] if got[i + 1][0] == 'ok' else '%s@%d' % got[i + 1])
            os.unlink(path)
        self.traces_validated += len(traces)
        return verdicts

    # ---- accounting ---------------------------------------------------------
    def case(self, case=None, nontrivial=False, n=1, key=None):
        self.evaluations += n
        if nontrivial:
            self.nontrivial.add(key if key is not None else digest(case))
            if case is not None and len(self.samples) < self.max_samples:
                self.samples.append(case)

    def progress(self, msg):
        print('[%6.1fs] %s %s' % (time.time() - self.t0, self.pid, msg), file=sys.stderr)
        sys.stderr.flush()

    def sample(self, case):
        if len(self.samples) < self.max_samples:
            self.samples.append(case)

    # ---- outcomes -----------------------------------------------------------
    def violation(self, clause, case, what, signature=None):
        """A P-clause failed on the implementation."""
        if signature is not None:
            for rec in self.known:
                if rec.get('signature') == signature:
                    k = canon(signature)
                    self.known_hit.setdefault(k, [rec, 0])
                    self.known_hit[k][1] += 1
                    return False
        if len(self.violations) < 50:
            os.makedirs(REPLAY_DIR, exist_ok=True)
            path = os.path.join(REPLAY_DIR, '%s-%s.json' % (self.pid, digest([clause, case])))
            with open(path, 'w') as f:
                json.dump({'property': self.pid, 'clause': clause, 'what': what, 'case': case,
                           'signature': signature}, f, indent=1, default=repr)
            self.violations.append({'clause': clause, 'what': what, 'replay': path})
            if len(self.violations) <= 8:
                print('VIOLATION property=%s replay=%s' % (self.pid, path))
                print('  clause=%s %s' % (clause, str(what)[:300]))
                sys.stdout.flush()
        else:
            self.violations.append({'clause': clause, 'what': what, 'replay': None})
        return True

    def detail(self, clause, case, what=''):
        """A D-clause (model detail the property does not demand) mismatched: noted, never alarms."""
        if len(self.details) < 20:
            print('NOTE model-detail mismatch %s %s' % (clause, what))
        self.details.append({'clause': clause, 'what': what, 'case': case if len(self.details) < 5 else None})

    def note(self, s):
        self.notes.append(s)

    # ---- finish ---------------------------------------------------------------
    def finish(self):
        import shutil
        shutil.rmtree(self.scratch, ignore_errors=True)
        if len(self.violations) > 8:
            byc = {}
            for v in self.violations:
                byc[v['clause']] = byc.get(v['clause'], 0) + 1
            print('... %d violations in total, by clause: %s' % (len(self.violations), byc))
        for k, (rec, n) in sorted(self.known_hit.items()):
            print('KNOWN-FINDING: property=%s %s (%d cases)' % (self.pid, rec.get('what', ''), n))
        cov = {
            'states': self.states,
            'transitions': self.transitions,
            'traces_validated_against_impl': self.traces_validated,
            'evaluations': self.evaluations,
            'distinct_nontrivial': len(self.nontrivial),
            'rule': self.rule,
            'samples': self.samples[:self.max_samples] or ['(no sample recorded)'],
            'exhaustive': self.exhaustive,
            'checker_cmd': '; '.join(r['cmd'] for r in self.tlc_runs[:3]),
            'trusted_base': self.trusted_base,
            'tlc_runs': [{k: v for k, v in r.items() if k != 'cmd'} for r in self.tlc_runs],
            'detail_mismatches': len(self.details),
            'known_findings_hit': [{'signature': json.loads(k), 'cases': n} for k, (rec, n) in self.known_hit.items()],
            'notes': self.notes,
        }
        cov.update(self.extra)
        ev = {
            'property_id': self.pid,
            'tier': self.tier,
            'seed': self.seed,
            'level': 'model_checking',
            'coverage': cov,
            'assumptions': self.assumptions,
            'wall_s': round(time.time() - self.t0, 2),
            'violations': len(self.violations),
        }
        os.makedirs(EVIDENCE_DIR, exist_ok=True)
        tmp = os.path.join(EVIDENCE_DIR, '.%s.json.tmp' % self.pid)
        with open(tmp, 'w') as f:
            json.dump(ev, f, indent=1, default=repr)
        os.replace(tmp, os.path.join(EVIDENCE_DIR, '%s.json' % self.pid))
        print('%s tier=%s seed=%d states=%d transitions=%d traces=%d evaluations=%d nontrivial=%d '
              'violations=%d known=%d details=%d wall=%.1fs'
              % (self.pid, self.tier, self.seed, self.states, self.transitions, self.traces_validated,
                 self.evaluations, len(self.nontrivial), len(self.violations), len(self.known_hit),
                 len(self.details), time.time() - self.t0))
        return 1 if self.violations else 0


def _progress(v):
    import re
    m = re.search(r'l=(\d+)', v)
    return int(m.group(1)) if m else -1


def main(argv=None):
    import argparse
    import importlib
    ap = argparse.ArgumentParser()
    ap.add_argument('pid')
    ap.add_argument('--tier', default=os.environ.get('VERIF_TIER', 'quick'), choices=['quick', 'thorough'])
    ap.add_argument('--seed', type=int, default=int(os.environ.get('VERIF_SEED', '0') or 0))
    ap.add_argument('--replay', default=None)
    a = ap.parse_args(argv)
    pid = a.pid.upper()
    sys.path.insert(0, VERIF)
    ctx = Ctx(pid, a.tier, a.seed)
    try:
        from . import srcimport  # noqa: F401  (installs the source-only importer)
        mod = importlib.import_module('checks.%s' % pid.lower())
        if a.replay:
            rec = json.load(open(a.replay))
            mod.replay(ctx, rec['case'])
        else:
            mod.run(ctx)
        rc = ctx.finish()
    except (MachineryError, _tlc.TLCError) as e:
        print('MACHINERY-FAILURE %s: %s' % (pid, e))
        rc = 2
    except Exception:
        traceback.print_exc()
        print('MACHINERY-FAILURE %s: harness exception' % pid)
        rc = 2
    sys.stdout.flush()
    return rc
