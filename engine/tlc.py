"""TLC runner: runs tla2tools on a module under /verif/spec and parses what it prints."""
import json
import os
import re
import shutil
import subprocess
import tempfile
import time

SPEC_DIR = os.path.join(os.path.dirname(os.path.dirname(os.path.abspath(__file__))), 'spec')
JAR = '/opt/veriftools/tla/tla2tools.jar'
CM = '/opt/veriftools/tla/CommunityModules-deps.jar'

RE_STATES = re.compile(r'^(\d+) states generated, (\d+) distinct states found, (\d+) states left on queue', re.M)
RE_SIM = re.compile(r'The number of states generated: (\d+)')
RE_SIMTR = re.compile(r'Simulation using seed .* complete: (\d+) traces')
RE_INV = re.compile(r'Error: Invariant (\S+) is violated')
RE_PROP = re.compile(r'Error: (?:Action|Temporal) propert(?:y|ies) ?(\S*) ?(?:is|were) violated')
RE_COV = re.compile(r'^<(\w+) line (\d+), col \d+ to line \d+, col \d+ of module (\w+)>: (\d+):(\d+)', re.M)
RE_TUPLE = re.compile(r'^<<"([A-Z_]+)"((?:, (?:-?\d+|"(?:[^"\\]|\\.)*"|TRUE|FALSE))*)>>$', re.M)
RE_DEPTH = re.compile(r'The depth of the complete state graph search is (\d+)')


class TLCError(Exception):
    """Machinery failure (parse error, TLC crash, timeout): exit status 2 territory."""


class TLCResult:
    def __init__(self):
        self.cmd = ''
        self.out = ''
        self.rc = None
        self.generated = 0
        self.distinct = 0
        self.depth = 0
        self.violated = None          # name of violated invariant / property, if any
        self.error = None             # other TLC error text
        self.coverage = {}            # action name -> (distinct, taken)
        self.json = []                # decoded JSON values printed with PrintT(ToJson(..))
        self.tuples = []              # (tag, [fields]) for PrintT(<<"TAG", ...>>)
        self.wall = 0.0
        self.timed_out = False

    def summary(self):
        return {'cmd': self.cmd, 'generated': self.generated, 'distinct': self.distinct,
                'depth': self.depth, 'violated': self.violated, 'wall_s': round(self.wall, 2),
                'coverage': {k: v[1] for k, v in sorted(self.coverage.items())}}


def _parse_tuple_fields(s):
    out = []
    for m in re.finditer(r', (-?\d+|"(?:[^"\\]|\\.)*"|TRUE|FALSE)', s):
        t = m.group(1)
        if t[0] == '"':
            out.append(json.loads(t))
        elif t in ('TRUE', 'FALSE'):
            out.append(t == 'TRUE')
        else:
            out.append(int(t))
    return out


def run(module, cfg=None, *, workers=16, simulate=None, depth=None, seed=None, env=None,
        timeout=600, coverage=False, deadlock=False, heap='6g', extra=(), spec_dir=SPEC_DIR,
        expect_violation=False, dfs=False):
    """Run TLC on spec/<module>.tla with spec/<cfg>.  Returns TLCResult.

    simulate: None or dict(num=N) -> ``-simulate num=N`` (num is per worker) with -depth.
    Raises TLCError for machinery failures (SANY errors, evaluation errors, time-outs)
    unless the failure is an invariant/property violation (reported in .violated).
    """
    cfg = cfg or module + '.cfg'
    meta = tempfile.mkdtemp(prefix='tlc-meta-')
    jopts = ['-XX:+UseParallelGC', '-Xmx' + heap, '-Djava.io.tmpdir=' + meta]
    if dfs:
        jopts.append('-Dtlc2.tool.queue.IStateQueue=StateDeque')
    cmd = ['java'] + jopts + ['-cp', JAR + ':' + CM, 'tlc2.TLC',
           '-workers', str(workers), '-metadir', os.path.join(meta, 'states'), '-noGenerateSpecTE',
           '-config', cfg]
    if not deadlock:
        cmd.append('-deadlock')      # -deadlock DISABLES deadlock checking
    if coverage:
        cmd += ['-coverage', '1']
    if simulate is not None:
        s = 'num=%d' % simulate.get('num', 1000)
        cmd += ['-simulate', s]
        cmd += ['-depth', str(depth or 20)]
    if seed is not None:
        cmd += ['-seed', str(seed)]
    cmd += list(extra)
    cmd.append(module + '.tla')
    e = dict(os.environ)
    e.pop('JAVA_TOOL_OPTIONS', None)
    if env:
        e.update({k: str(v) for k, v in env.items()})
    r = TLCResult()
    r.cmd = ' '.join(cmd)
    t0 = time.time()
    try:
        p = subprocess.run(cmd, cwd=spec_dir, env=e, stdout=subprocess.PIPE, stderr=subprocess.STDOUT,
                           timeout=timeout, text=True, errors='replace')
        r.out = p.stdout
        r.rc = p.returncode
    except subprocess.TimeoutExpired as ex:
        r.out = (ex.stdout or b'').decode('utf-8', 'replace') if isinstance(ex.stdout, bytes) else (ex.stdout or '')
        r.timed_out = True
        subprocess.run(['pkill', '-f', meta], check=False)
    finally:
        shutil.rmtree(meta, ignore_errors=True)
    r.wall = time.time() - t0
    out = r.out
    m = None
    for m in RE_STATES.finditer(out):
        pass
    if m:
        r.generated, r.distinct = int(m.group(1)), int(m.group(2))
    else:
        m = RE_SIM.search(out)
        if m:
            r.generated = r.distinct = int(m.group(1))
    m = RE_DEPTH.search(out)
    if m:
        r.depth = int(m.group(1))
    m = RE_INV.search(out)
    if m:
        r.violated = m.group(1)
    else:
        m = RE_PROP.search(out)
        if m:
            r.violated = m.group(1) or 'property'
    for m in RE_COV.finditer(out):
        name = m.group(1)
        d, t = int(m.group(4)), int(m.group(5))
        od, ot = r.coverage.get(name, (0, 0))
        r.coverage[name] = (od + d, ot + t)
    for line in out.splitlines():
        if len(line) > 3 and line[0] == '"' and line[1] in '{[' and line[-1] == '"':
            try:
                r.json.append(json.loads(json.loads(line)))
            except ValueError:
                pass
    for m in RE_TUPLE.finditer(out):
        r.tuples.append((m.group(1), _parse_tuple_fields(m.group(2))))
    if r.timed_out:
        raise TLCError('TLC timed out after %ss: %s' % (timeout, r.cmd))
    if r.violated is None:
        errs = [l for l in out.splitlines() if l.startswith('Error:') or 'Parsing or semantic analysis failed' in l
                or l.startswith('*** Errors') or 'Fatal error' in l]
        if errs or (r.rc not in (0,) and r.generated == 0):
            r.error = '\n'.join(errs[:5]) or 'rc=%s' % r.rc
            tail = '\n'.join(out.splitlines()[-40:])
            raise TLCError('TLC failed: %s\n%s\n%s' % (r.cmd, r.error, tail))
    elif not expect_violation:
        pass
    return r


def sany(module, spec_dir=SPEC_DIR):
    p = subprocess.run(['java', '-cp', JAR + ':' + CM, 'tla2sany.SANY', module + '.tla'], cwd=spec_dir,
                       stdout=subprocess.PIPE, stderr=subprocess.STDOUT, text=True)
    ok = p.returncode == 0 and 'error' not in p.stdout.lower().replace('errors: 0', '')
    return ok, p.stdout


def counterexample(out):
    """Extract the textual counterexample (State n: ...) from TLC output."""
    i = out.find('Error:')
    return out[i:i + 6000] if i >= 0 else ''
