"""Deterministic line-level thread scheduler (sys.settrace) for falcon/routing/compiled.py (C19).

Every thread blocks on its own semaphore at each *yield point*: a source line, inside the
router functions that take part in lazy compilation, whose text mentions state shared between
threads.  The lines are found by regular expression over the current source, so line numbers
may move.  The router's lock (if it has one) is replaced by a cooperative lock that reports
"blocked" to the scheduler instead of blocking the OS thread.  A schedule is a list of
decisions; run() returns per-thread results, the classified event trace, and the decision
points met (for preemption-bounded DFS).
"""
import linecache
import re
import sys
import threading

FUNCS = {'find', '_compile_and_find', '_compile', '_generate_ast', '_generate_conversion_ast'}
SHARED = re.compile(r'self\._(find|return_values|patterns|converters|compile_lock)\b'
                    r'|\breturn_values\.append|len\(return_values\)')

CLASSIFY = [
    ('recheck', re.compile(r'if self\._find\s*==')),
    ('compileCall', re.compile(r'self\._find\s*=\s*self\._compile\(\)')),
    ('resetRv', re.compile(r'self\._return_values\s*=\s*\[\]')),
    ('resetPat', re.compile(r'self\._patterns\s*=\s*\[\]')),
    ('resetConv', re.compile(r'self\._converters\s*=\s*\[\]')),
    ('convLen', re.compile(r'=\s*len\(self\._converters\)')),
    ('convAppend', re.compile(r'self\._converters\.append')),
    ('rvLen', re.compile(r'=\s*len\(return_values\)')),
    ('rvAppend', re.compile(r'return_values\.append')),
    ('withLock', re.compile(r'with self\._compile_lock')),
    ('readArgs', re.compile(r'self\._return_values,\s*self\._patterns')),
    ('readFind2', re.compile(r'return self\._find\(')),
    ('readFind', re.compile(r'self\._find\(')),
]


def classify(func, text):
    for name, rx in CLASSIFY:
        if rx.search(text):
            if name == 'readArgs' and func == '_compile':
                return 'handRv'
            return name
    return 'other'


class CoopLock:
    def __init__(self, sched):
        self.sched = sched
        self.owner = None

    def __enter__(self):
        tid = threading.current_thread().tid
        while self.owner is not None:
            self.sched.state[tid] = 'blocked'
            self.sched.yield_point(tid, 'blocked')
        self.owner = tid
        self.sched.state[tid] = 'ready'
        self.sched.events.append((tid, 'acquire'))
        return self

    def __exit__(self, *a):
        self.sched.events.append((self.owner, 'release'))
        self.owner = None
        for i, st in enumerate(self.sched.state):
            if st == 'blocked':
                self.sched.state[i] = 'ready'
        return False

    def acquire(self, *a, **k):
        self.__enter__()
        return True

    def release(self):
        self.__exit__()


class Sched:
    def __init__(self, n, src_file, choices=(), prefer=None):
        self.n = n
        self.src = src_file
        self.choices = list(choices)
        self.prefer = list(prefer) if prefer is not None else None   # sequence of thread ids (TLC schedule)
        self.ci = 0
        self.sems = [threading.Semaphore(0) for _ in range(n)]
        self.back = threading.Semaphore(0)
        self.state = ['ready'] * n
        self.events = []
        self.decisions = []
        self.preempt_in_compile = 0

    def yield_point(self, tid, label):
        # The thread pauses BEFORE executing the line; the line runs when the scheduler resumes the
        # thread, and nothing else runs until its next yield point.  The event is therefore logged
        # at resumption: the log order is the order in which the shared accesses really happen.
        self.back.release()
        self.sems[tid].acquire()
        if label != 'blocked':
            self.events.append((tid, label))

    def tracer(self, tid):
        def local(frame, event, arg):
            if event == 'line':
                txt = linecache.getline(self.src, frame.f_lineno)
                if SHARED.search(txt):
                    self.yield_point(tid, classify(frame.f_code.co_name, txt))
            elif event == 'return' and frame.f_code.co_name == '_compile':
                self.yield_point(tid, 'publish')
            return local

        def glob(frame, event, arg):
            if event == 'call' and frame.f_code.co_filename == self.src and frame.f_code.co_name in FUNCS:
                return local
            return None
        return glob

    def run(self, router, paths, project):
        results = [None] * self.n
        lock_name = None
        for name in ('_compile_lock',):
            if hasattr(router, name):
                lock_name = name
        if lock_name:
            setattr(router, lock_name, CoopLock(self))

        def body(tid):
            self.sems[tid].acquire()
            sys.settrace(self.tracer(tid))
            try:
                r = router.find(paths[tid])
                results[tid] = ('ok', project(r))
            except BaseException as e:  # noqa
                results[tid] = ('exc', type(e).__name__ + ':' + str(e)[:80])
            finally:
                sys.settrace(None)
                self.events.append((tid, 'done'))
                self.state[tid] = 'done'
                self.back.release()

        ths = []
        for i in range(self.n):
            t = threading.Thread(target=body, args=(i,), daemon=True)
            t.tid = i
            t.start()
            ths.append(t)
        cur = 0
        pi = 0
        steps = 0
        while True:
            runnable = [i for i in range(self.n) if self.state[i] == 'ready']
            if not runnable:
                if all(s == 'done' for s in self.state):
                    break
                raise RuntimeError('deadlock %r' % (self.state,))
            if self.prefer is not None:
                while pi < len(self.prefer) and (self.prefer[pi] - 1) not in runnable:
                    pi += 1
                if pi < len(self.prefer):
                    nxt = self.prefer[pi] - 1
                    pi += 1
                else:
                    nxt = cur if cur in runnable else runnable[0]
                cur = nxt
            else:
                if cur not in runnable:
                    cur = runnable[0]
                opts = [cur] + [i for i in runnable if i != cur]
                if len(opts) > 1:
                    k = self.choices[self.ci] if self.ci < len(self.choices) else 0
                    self.ci += 1
                    self.decisions.append((len(opts), k))
                    cur = opts[k]
            steps += 1
            if steps > 100000:
                raise RuntimeError('schedule does not terminate')
            self.sems[cur].release()
            self.back.acquire()
        for t in ths:
            t.join(5)
        return results
