"""Preemption-point scheduler over ALL falcon source lines (C19, threads outside the router).

Two (or three) request threads run on one app.  A thread is traced with sys.settrace in every
frame whose code lives under <FALCON_ROOT>/falcon; it counts the source lines it executes and
stops *before* its k-th line (a preemption point), handing control back to the controller.  A
schedule is a list of (thread, stop_before_line | None) segments, run strictly one after the other:
    [(0, k), (1, None), (0, None)]            one preemption: 0 stops before its k-th line, 1 runs, 0 ends
    [(0, k), (1, j), (0, None), (1, None)]     two preemptions
Only one thread runs at any time, so a run is deterministic.  Locks of the code under test that
are held at a preemption point make another thread block inside C; the controller detects that by a
timeout, lets the lock holder finish and reports the schedule as infeasible (never as a violation).
"""
import os
import sys
import threading


class WideLock:
    """Stand-in for a lock of the code under test: a thread that finds it taken reports 'blocked'."""
    def __init__(self, w):
        self.w = w
        self.owner = None

    def __enter__(self):
        tid = getattr(threading.current_thread(), 'tid', None)
        while self.owner is not None and tid is not None:
            self.w.state[tid] = 'blocked'
            self.w.back.release()
            self.w.go[tid].acquire()
        self.owner = tid
        return self

    def __exit__(self, *a):
        self.owner = None
        return False

    def acquire(self, *a, **k):
        self.__enter__()
        return True

    def release(self):
        self.__exit__()


class Wide:
    def __init__(self, root, n, block_timeout=2.0):
        self.prefix = os.path.join(os.path.realpath(root), 'falcon') + os.sep
        self.n = n
        self.go = [threading.Semaphore(0) for _ in range(n)]
        self.back = threading.Semaphore(0)
        self.count = [0] * n
        self.stop_at = [None] * n
        self.state = ['new'] * n          # new | paused | done
        self.where = [None] * n           # (file, line) of the last preemption point
        self.block_timeout = block_timeout
        self.infeasible = False
        self.record = False
        self.files = [[] for _ in range(n)]   # with record: module of every counted line

    def _tracer(self, tid):
        prefix = self.prefix
        depth = [0]

        def point(frame, kind):
            self.count[tid] += 1
            if self.record:
                self.files[tid].append((frame.f_code.co_filename[len(prefix):], frame.f_code.co_name, depth[0], kind))
            if self.count[tid] == self.stop_at[tid]:
                self.where[tid] = (frame.f_code.co_filename[len(prefix):], frame.f_lineno,
                                   frame.f_code.co_name, kind)
                self.state[tid] = 'paused'
                self.back.release()
                self.go[tid].acquire()

        def local(frame, event, arg):
            # preemption points: before every source line, and right after a function returned (which separates
            # the end of a callee - e.g. the release of its lock - from the rest of the caller's line)
            if event == 'line':
                point(frame, 'line')
            elif event == 'return':
                depth[0] -= 1
                point(frame, 'return')
            return local

        def glob(frame, event, arg):
            if event == 'call' and frame.f_code.co_filename.startswith(prefix):
                depth[0] += 1
                return local
            return None
        return glob

    def run(self, fns, schedule):
        """fns[i]() is thread i's whole request; returns (results, lines_executed, where)."""
        results = [None] * self.n

        def body(tid):
            self.go[tid].acquire()
            sys.settrace(self._tracer(tid))
            try:
                results[tid] = ('ok', fns[tid]())
            except BaseException as e:  # noqa
                results[tid] = ('exc', type(e).__name__ + ':' + str(e)[:120])
            finally:
                sys.settrace(None)
                self.state[tid] = 'done'
                self.back.release()

        ths = [threading.Thread(target=body, args=(i,), daemon=True) for i in range(self.n)]
        for i, t in enumerate(ths):
            t.tid = i
            t.start()
        pending_back = 0
        for tid, stop in list(schedule) + [(i, None) for i in range(self.n)]:
            if self.state[tid] == 'done':
                continue
            self.stop_at[tid] = stop if (stop is None or stop > self.count[tid]) else None
            self.go[tid].release()
            if not self.back.acquire(timeout=self.block_timeout):
                # tid is blocked (a lock held by a paused thread): let every paused thread finish first
                self.infeasible = True
                pending_back += 1
                for other in range(self.n):
                    if other != tid and self.state[other] == 'paused':
                        self.stop_at[other] = None
                        self.go[other].release()
                        if not self.back.acquire(timeout=30):
                            raise RuntimeError('thread %d does not finish' % other)
                if not self.back.acquire(timeout=30):
                    raise RuntimeError('thread %d stays blocked' % tid)
                pending_back -= 1
            while self.state[tid] == 'blocked':
                # cooperative lock taken by a paused thread: the holder runs on, then tid continues
                self.infeasible = True
                for other in range(self.n):
                    if other != tid and self.state[other] == 'paused':
                        self.stop_at[other] = None
                        self.state[other] = 'running'
                        self.go[other].release()
                        if not self.back.acquire(timeout=30):
                            raise RuntimeError('thread %d does not finish' % other)
                self.state[tid] = 'running'
                self.go[tid].release()
                if not self.back.acquire(timeout=30):
                    raise RuntimeError('thread %d stays blocked' % tid)
        for t in ths:
            t.join(10)
        return results, list(self.count), list(self.where)
