"""Minimal spec-faithful server drivers with built-in protocol monitors.

These are NOT falcon's test helpers: they are an independent reading of PEP 3333 and of the
ASGI HTTP spec, so that falcon.testing can itself be checked against them (C06) and so that
protocol legality (C05) is judged by something falcon did not write.

An abstract request is a `Req`.  `wsgi_call(app, req)` and `asgi_call(app, req)` run one
request and return a `Result` with the server-visible response and `errors`, the list of
protocol violations the monitor saw (empty = legal).
"""
import asyncio
import io
import urllib.parse


class Req:
    def __init__(self, method='GET', target=b'/', query=b'', headers=(), body=b'', chunks=None,
                 scheme='http', host='falconframework.org', port=80, client=('127.0.0.1', 51234),
                 root_path='', http_version='1.1'):
        self.method = method
        self.target = target if isinstance(target, bytes) else target.encode('utf-8')   # raw, may be %-escaped
        self.query = query if isinstance(query, bytes) else query.encode('utf-8')
        self.headers = [(str(k), str(v)) for k, v in headers]     # as sent on the wire, order kept
        self.body = body
        self.chunks = chunks          # list of chunk lengths (WSGI: read caps; ASGI: event sizes) or None
        self.scheme = scheme
        self.host = host
        self.port = port
        self.client = client
        self.root_path = root_path
        self.http_version = http_version

    def has_header(self, name):
        return any(k.lower() == name.lower() for k, _ in self.headers)

    def wire_headers(self):
        """Header list as a server would see it: Host and Content-Length added when absent."""
        hs = list(self.headers)
        if not self.has_header('host'):
            default = (self.scheme == 'http' and self.port == 80) or (self.scheme == 'https' and self.port == 443)
            hs.insert(0, ('Host', self.host if default else '%s:%d' % (self.host, self.port)))
        if self.body and not self.has_header('content-length') and not self.has_header('transfer-encoding'):
            hs.append(('Content-Length', str(len(self.body))))
        return hs


class Result:
    def __init__(self):
        self.status = None            # int
        self.status_line = None       # WSGI only
        self.headers = []             # list of (str lower-name, str value), order kept, duplicates kept
        self.raw_headers = []         # exactly as handed to the server
        self.body = b''
        self.chunks = []
        self.events = []              # ASGI events sent / WSGI pseudo-events
        self.errors = []              # protocol violations seen by the monitor
        self.exc = None               # exception that escaped the app callable
        self.closed = 0               # WSGI: close() calls made by the driver on the iterable
        self.iterable = None
        self.extra = {}

    def header(self, name, default=None):
        vals = [v for k, v in self.headers if k == name.lower()]
        return vals[0] if vals else default

    def header_all(self, name):
        return [v for k, v in self.headers if k == name.lower()]

    def header_map(self):
        m = {}
        for k, v in self.headers:
            m.setdefault(k, []).append(v)
        return m

    def triple(self):
        return (self.status, sorted(self.headers), self.body)


# ------------------------------------------------------------------------------------------------
# WSGI
# ------------------------------------------------------------------------------------------------

class WsgiInput:
    """wsgi.input double: logs every size asked; holds foreign bytes after the body."""

    def __init__(self, body, caps=None, extra=b''):
        self.buf = body + extra
        self.body_len = len(body)
        self.pos = 0
        self.caps = list(caps) if caps else None
        self.calls = []
        self.k = 0

    def _take(self, n):
        if self.caps:
            cap = self.caps[self.k % len(self.caps)]
            self.k += 1
            n = min(n, cap) if n >= 0 else cap
        if n < 0:
            n = len(self.buf) - self.pos
        r = self.buf[self.pos:self.pos + n]
        self.pos += len(r)
        return r

    def read(self, size=-1):
        self.calls.append(('read', size))
        return self._take(-1 if size is None else size)

    def readline(self, size=-1):
        self.calls.append(('readline', size))
        size = -1 if size is None else size
        rest = self.buf[self.pos:]
        i = rest.find(b'\n')
        n = len(rest) if i < 0 else i + 1
        if size >= 0:
            n = min(n, size)
        r = rest[:n]
        self.pos += n
        return r

    def readlines(self, hint=-1):
        self.calls.append(('readlines', hint))
        out, total = [], 0
        while True:
            l = self.readline()
            if not l:
                break
            out.append(l)
            total += len(l)
            if hint is not None and 0 < hint <= total:
                break
        return out

    def __iter__(self):
        return self

    def __next__(self):
        self.calls.append(('next', None))
        l = self.readline()
        if not l:
            raise StopIteration
        return l


def environ(req, file_wrapper=None, input_obj=None):
    path = urllib.parse.unquote_to_bytes(req.target).decode('latin-1')      # PEP 3333 native string
    env = {
        'REQUEST_METHOD': req.method,
        'SCRIPT_NAME': req.root_path,
        'PATH_INFO': path,
        'QUERY_STRING': req.query.decode('latin-1'),
        'SERVER_NAME': req.host,
        'SERVER_PORT': str(req.port),
        'SERVER_PROTOCOL': 'HTTP/' + req.http_version,
        'REMOTE_ADDR': req.client[0],
        'REMOTE_PORT': str(req.client[1]),
        'RAW_URI': (req.target + (b'?' + req.query if req.query else b'')).decode('latin-1'),
        'wsgi.version': (1, 0),
        'wsgi.url_scheme': req.scheme,
        'wsgi.input': input_obj if input_obj is not None else WsgiInput(req.body, req.chunks),
        'wsgi.errors': io.StringIO(),
        'wsgi.multithread': False,
        'wsgi.multiprocess': True,
        'wsgi.run_once': False,
    }
    if file_wrapper is not None:
        env['wsgi.file_wrapper'] = file_wrapper
    folded = {}
    for k, v in req.wire_headers():
        key = k.upper().replace('-', '_')
        if key in folded:
            folded[key] = folded[key] + ('; ' if key == 'COOKIE' else ',') + v      # RFC 9110 5.3 / 6265
        else:
            folded[key] = v
    for key, v in folded.items():
        if key in ('CONTENT_TYPE', 'CONTENT_LENGTH'):
            env[key] = v
        else:
            env['HTTP_' + key] = v
    return env


class FileWrapper:
    """wsgi.file_wrapper double (PEP 3333): iterable over a file-like, with close()."""

    def __init__(self, filelike, block_size=8192):
        self.filelike = filelike
        self.block_size = block_size
        self.closed = 0

    def __iter__(self):
        return self

    def __next__(self):
        d = self.filelike.read(self.block_size)
        if d:
            return d
        raise StopIteration

    def close(self):
        self.closed += 1
        if hasattr(self.filelike, 'close'):
            self.filelike.close()


def wsgi_call(app, req, file_wrapper=None, input_obj=None, write_fails_at=None):
    """Run one request through a WSGI callable under a PEP 3333 monitor."""
    res = Result()
    env = environ(req, file_wrapper, input_obj)
    res.extra['environ'] = env
    started = []

    def start_response(status, headers, exc_info=None):
        started.append((status, headers, exc_info))
        if len(started) > 1 and exc_info is None:
            res.errors.append('start_response called twice without exc_info')
        if not isinstance(status, str):
            res.errors.append('status is not a native string: %r' % (status,))
        else:
            if len(status) < 4 or not status[:3].isdigit() or status[3] != ' ':
                res.errors.append('malformed status line %r' % status)
            else:
                res.status = int(status[:3])
            if status != status.strip() or any(ord(c) < 32 or ord(c) > 255 for c in status):
                res.errors.append('status line has control characters / surrounding whitespace: %r' % status)
            res.status_line = status
        if not isinstance(headers, list):
            res.errors.append('headers is not a list: %r' % type(headers))
        hs = []
        for item in headers:
            if not (isinstance(item, tuple) and len(item) == 2):
                res.errors.append('header item is not a 2-tuple: %r' % (item,))
                continue
            k, v = item
            if not isinstance(k, str) or not isinstance(v, str):
                res.errors.append('header is not a pair of native strings: %r' % (item,))
                continue
            if any(ord(c) > 255 for c in k + v):
                res.errors.append('header not latin-1 encodable: %r' % (item,))
            if '\n' in k + v or '\r' in k + v:
                res.errors.append('header contains CR/LF: %r' % (item,))
            if k.lower() in ('connection', 'keep-alive', 'proxy-authenticate', 'proxy-authorization', 'te',
                             'trailers', 'transfer-encoding', 'upgrade'):
                res.errors.append('hop-by-hop header set by application: %r' % k)
            hs.append((k.lower(), v))
        res.headers = hs
        res.raw_headers = list(headers)

        def write(data):
            res.errors.append('write() callable used')
        return write

    try:
        iterable = app(env, start_response)
    except Exception as ex:      # escaped to the server
        res.exc = ex
        return res
    res.iterable = iterable
    try:
        n = 0
        for chunk in iterable:
            if not started:
                res.errors.append('body chunk produced before start_response')
            if not isinstance(chunk, bytes):
                res.errors.append('body chunk is not bytes: %r' % type(chunk))
                chunk = bytes(chunk) if isinstance(chunk, (bytearray, memoryview)) else b''
            if write_fails_at is not None and n == write_fails_at:
                raise ConnectionError('client went away (injected)')
            res.chunks.append(chunk)
            n += 1
    except ConnectionError as ex:
        res.extra['send_failed'] = True
    except Exception as ex:
        res.exc = ex
    finally:
        if hasattr(iterable, 'close'):
            try:
                iterable.close()
                res.closed += 1
            except Exception as ex:
                res.exc = res.exc or ex
    if not started:
        res.errors.append('start_response never called')
    res.body = b''.join(res.chunks)
    return res


# ------------------------------------------------------------------------------------------------
# ASGI
# ------------------------------------------------------------------------------------------------

def scope(req, spec_version='2.3'):
    hs = [(k.lower().encode('latin-1'), v.encode('latin-1')) for k, v in req.wire_headers()]
    return {
        'type': 'http',
        'asgi': {'version': '3.0', 'spec_version': spec_version},
        'http_version': req.http_version,
        'method': req.method,
        'scheme': req.scheme,
        'path': urllib.parse.unquote_to_bytes(req.target).decode('utf-8', 'replace'),
        'raw_path': req.target,
        'query_string': req.query,
        'root_path': req.root_path,
        'headers': hs,
        'client': tuple(req.client) if req.client else None,
        'server': (req.host, req.port),
    }


def body_events(req):
    body = req.body
    if req.chunks is None:
        return [{'type': 'http.request', 'body': body, 'more_body': False}]
    evs, p = [], 0
    for k in req.chunks:
        evs.append({'type': 'http.request', 'body': body[p:p + k], 'more_body': True})
        p += k
    evs.append({'type': 'http.request', 'body': body[p:], 'more_body': False})
    return evs


def run_async(coro, max_steps=100000):
    """Run a coroutine to completion on a fresh private event loop (no wall clock involved)."""
    loop = asyncio.new_event_loop()
    try:
        return loop.run_until_complete(coro)
    finally:
        try:
            pending = asyncio.all_tasks(loop)
            for t in pending:
                t.cancel()
            if pending:
                loop.run_until_complete(asyncio.gather(*pending, return_exceptions=True))
        finally:
            loop.close()


async def asgi_call_async(app, req, events=None, send_fails_at=None, spec_version='2.3', disconnect_after=True,
                          scope_override=None):
    """Run one HTTP request through an ASGI callable under an ASGI-HTTP monitor.
    events: explicit list of receive events (default: body_events(req)); after they are used up
    receive() returns http.disconnect (a real server would block until the client goes away)."""
    res = Result()
    sc = scope(req, spec_version)
    if scope_override:
        sc.update(scope_override)
    evs = list(events if events is not None else body_events(req))
    state = {'started': False, 'done': False, 'n': 0, 'recv': 0}

    async def receive():
        state['recv'] += 1
        await asyncio.sleep(0)
        if evs:
            return evs.pop(0)
        return {'type': 'http.disconnect'}

    async def send(ev):
        await asyncio.sleep(0)
        if send_fails_at is not None and state['n'] == send_fails_at:
            state['n'] += 1
            raise OSError('client went away (injected)')
        state['n'] += 1
        res.events.append(ev)
        if not isinstance(ev, dict) or 'type' not in ev:
            res.errors.append('event is not a dict with a type: %r' % (ev,))
            return
        t = ev['type']
        if state['done']:
            res.errors.append('event after the final body event: %r' % t)
        if t == 'http.response.start':
            if state['started']:
                res.errors.append('second http.response.start')
            state['started'] = True
            st = ev.get('status')
            if not isinstance(st, int) or isinstance(st, bool):
                res.errors.append('status is not an int: %r' % (st,))
            else:
                res.status = st
            hs = []
            for item in ev.get('headers', []):
                try:
                    k, v = item
                except Exception:
                    res.errors.append('header item is not a pair: %r' % (item,))
                    continue
                if not isinstance(k, bytes) or not isinstance(v, bytes):
                    res.errors.append('header is not a pair of byte strings: %r' % (item,))
                    continue
                if k != k.lower():
                    res.errors.append('header name not lower-case: %r' % k)
                if b'\n' in k + v or b'\r' in k + v:
                    res.errors.append('header contains CR/LF: %r' % (item,))
                hs.append((k.decode('latin-1'), v.decode('latin-1')))
            res.headers = hs
            res.raw_headers = list(ev.get('headers', []))
        elif t == 'http.response.body':
            if not state['started']:
                res.errors.append('body event before http.response.start')
            b = ev.get('body', b'')
            if not isinstance(b, (bytes, bytearray, memoryview)):
                res.errors.append('body is not bytes: %r' % type(b))
                b = b''
            res.chunks.append(bytes(b))
            mb = ev.get('more_body', False)
            if not isinstance(mb, bool):
                res.errors.append('more_body is not a bool: %r' % (mb,))
            if not mb:
                state['done'] = True
        else:
            res.errors.append('unexpected event type %r' % t)

    try:
        await app(sc, receive, send)
    except OSError as ex:
        if 'injected' in str(ex):
            res.extra['send_failed'] = True
        else:
            res.exc = ex
    except Exception as ex:
        res.exc = ex
    if res.exc is None and not res.extra.get('send_failed'):
        if not state['started']:
            res.errors.append('http.response.start never sent')
        elif not state['done']:
            res.errors.append('response never completed (no body event with more_body false)')
    res.body = b''.join(res.chunks)
    res.extra['receive_calls'] = state['recv']
    return res


def asgi_call(app, req, **kw):
    return run_async(asgi_call_async(app, req, **kw))
