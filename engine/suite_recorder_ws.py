"""Suite recorder, WebSocket branch: records every WebSocket session falcon's own test suite opens.

Sibling of engine/suite_recorder.py (HTTP exchanges, G01); the two can be loaded together
(``-p engine.suite_recorder -p engine.suite_recorder_ws``): that module passes non-HTTP scopes through untouched,
this one passes everything but ``scope['type'] == 'websocket'`` through untouched, and they write to different
files ($SUITE_RECORD_FILE / $SUITE_WS_RECORD_FILE).  The typed-copy vocabulary (enc, _exc, _tname) is that
module's and is imported from it.  Nothing in /repo is changed.

While the suite runs it wraps

    falcon.asgi.App.__call__ (websocket scopes only)    the session: every event the app obtained from the
                                                        server's receive() and every event it handed to send()
    falcon.App._get_responder                           routing decision; the picked responder is handed back
                                                        inside a forwarding coroutine that notes enter / return / raise
    falcon.asgi.App._handle_exception                   which exception reached the framework, which handler it found
    falcon.asgi.App._http_status_handler / _http_error_handler (ws given)   HTTP status that is turned into a close code
    falcon.asgi.App._ws_cleanup_on_error                the framework's own error close

and writes one JSON line (kind "ws") per session to $SUITE_WS_RECORD_FILE (O_APPEND, one write per line, shared by
the xdist workers):

    scope      type, asgi.spec_version / http_version exactly as given (typed copies), path, subprotocols
    opts       ws_options at the start of the session: error_close_code, max_receive_queue, default_close_reasons
    mw         number of process_request_ws / process_resource_ws methods
    patched    names of falcon.asgi.WebSocket / App methods the test replaced (monkeypatch) - observed, not judged
    ev         the items, in program order:
                 {"d": "recv", "e": event}                      receive() returned this event to falcon
                 {"d": "recv", "exc": ..}                       receive() raised
                 {"d": "send", "e": event, "ok": bool, "exc"}   falcon called send(event); noted at the call, ok / exc
                                                                filled in when the server returned / raised
                 {"d": "route", ..}  {"d": "resp", "at": "enter"|"return"|"raise"}  {"d": "hx", ..}  {"d": "hxdone", ..}
                 {"d": "http", "status": n}  {"d": "cleanup"}
    end        {"returned": true} | {"raised": exception}       how the app callable ended
    unfinished true if the app callable had not ended when the test session ended (written then, as it stood)

Events are copied by type, code, reason, subprotocol, headers and by payload KIND and LENGTH (never the payload).
The recorder decides nothing and touches application objects by attribute reads only.  Every wrapper is
transparent: same arguments, same return value / exception, same awaits.
"""
import contextvars
import functools
import json
import os

from engine.suite_recorder import _exc, _tname, enc

ENV = 'SUITE_WS_RECORD_FILE'

_CUR = contextvars.ContextVar('suite_recorder_ws_session', default=None)
_FD = [None]
_NODE = ['']
_SEQ = [0]
_INSTALLED = [False]
_ORIG = {}          # 'WebSocket.close' -> the function falcon defines (to notice monkeypatching by a test)
_ERR = {}           # falcon.errors classes, filled at install
_PENDING = {}       # id(rec) -> rec: sessions whose app callable has not ended yet


def _write(obj):
    fd = _FD[0]
    if fd is None:
        return
    try:
        line = json.dumps(obj, separators=(',', ':'), default=lambda o: {'o': _tname(o)}) + '\n'
    except Exception as ex:     # noqa
        line = json.dumps({'kind': 'error', 'what': 'unserialisable record: %r' % (ex,), 'node': _NODE[0]}) + '\n'
    os.write(fd, line.encode('utf-8', 'backslashreplace'))


def _xexc(ex):
    """typed copy of an exception + the class facts the judge side needs (isinstance reads only)"""
    d = _exc(ex)
    try:
        d['oserror'] = isinstance(ex, OSError)
        d['wsd'] = isinstance(ex, _ERR['WebSocketDisconnected'])
        d['ona'] = isinstance(ex, _ERR['OperationNotAllowed'])
        http = isinstance(ex, (_ERR['HTTPError'], _ERR['HTTPStatus']))
        d['http'] = http
        if http:
            d['status'] = enc(getattr(ex, 'status_code', None))
        if d['wsd']:
            d['code'] = enc(getattr(ex, 'code', None))
    except Exception as e2:     # noqa
        d['error'] = repr(e2)[:100]
    return d


def _payload(v):
    """kind and length of a payload, never its content"""
    if v is None:
        return None
    t = type(v)
    out = {'type': t.__name__, 'str': isinstance(v, str), 'bytes': isinstance(v, bytes)}
    try:
        out['n'] = len(v)
    except Exception:     # noqa
        out['n'] = -1
    return out


def _enc_event(ev):
    if type(ev) is not dict:
        return {'o': _tname(ev)}
    out = {'keys': sorted(str(k) for k in ev)}
    for k, v in ev.items():
        if k in ('text', 'bytes'):
            out[k] = _payload(v)
        elif k == 'headers':
            try:
                out['headers'] = {'type': type(v).__name__, 'items': [enc(i) for i in v]}
            except Exception:     # noqa
                out['headers'] = {'o': _tname(v)}
        else:
            out[str(k)] = enc(v)
    return out


def _options(app):
    o = {}
    try:
        w = app.ws_options
        o['error_close_code'] = enc(w.error_close_code)
        o['max_receive_queue'] = enc(w.max_receive_queue)
        r = w.default_close_reasons
        o['reasons'] = [[enc(k), enc(v)] for k, v in r.items()] if type(r) is dict else {'o': _tname(r)}
        o['media'] = sorted('%s=%s' % (getattr(k, 'name', k), _tname(v)) for k, v in w.media_handlers.items())
    except Exception as ex:     # noqa
        o['error'] = '%s: %s' % (type(ex).__name__, str(ex)[:200])
    return o


def _patched():
    out = []
    try:
        import falcon.asgi.app
        import falcon.asgi.ws
        for name, fn in _ORIG.items():
            cls, attr = name.split('.')
            owner = falcon.asgi.ws.WebSocket if cls == 'WebSocket' else falcon.asgi.app.App
            if owner.__dict__.get(attr) is not fn:
                out.append(name)
    except Exception as ex:     # noqa
        out.append('error:' + repr(ex)[:80])
    return out


def _scope(scope):
    a = scope.get('asgi')
    out = {'type': enc(scope.get('type')), 'path': enc(scope.get('path')), 'has_asgi': type(a) is dict,
           'has_spec_version': type(a) is dict and 'spec_version' in a,
           'spec_version': enc(a.get('spec_version')) if type(a) is dict else None,
           'asgi_version': enc(a.get('version')) if type(a) is dict else None,
           'has_http_version': 'http_version' in scope, 'http_version': enc(scope.get('http_version'))}
    sp = scope.get('subprotocols')
    out['subprotocols'] = [enc(s) for s in sp] if type(sp) in (list, tuple) else (None if sp is None else {'o': _tname(sp)})
    return out


# ------------------------------------------------------------------------------------------------
# the session
# ------------------------------------------------------------------------------------------------

def _make_asgi_call(orig):
    @functools.wraps(orig)
    async def __call__(self, scope, receive, send):
        if _FD[0] is None or not isinstance(scope, dict) or scope.get('type') != 'websocket':
            return await orig(self, scope, receive, send)
        _SEQ[0] += 1
        rec = {'kind': 'ws', 'node': _NODE[0], 'pid': os.getpid(), 'seq': _SEQ[0], 'ev': [], 'end': None,
               'app_class': _tname(self)}
        try:
            rec['scope'] = _scope(scope)
            rec['opts'] = _options(self)
            rec['patched'] = _patched()
            mw = getattr(self, '_middleware_ws', None)
            rec['mw'] = [len(mw[0]), len(mw[1])] if mw is not None else None
        except Exception as ex:     # noqa
            rec['error'] = repr(ex)[:200]
        items = rec['ev']
        _PENDING[id(rec)] = rec

        async def recording_send(ev):
            item = {'d': 'send', 'ok': None, 'exc': None}
            try:
                item['e'] = _enc_event(ev)
            except Exception as ex:     # noqa
                item['e'] = {'error': repr(ex)[:200]}
            items.append(item)          # noted when falcon makes the call: that is what falcon knew then
            try:
                r = await send(ev)
            except BaseException as ex:
                item['ok'] = False
                item['exc'] = _xexc(ex)
                raise
            item['ok'] = True
            return r

        async def recording_receive():
            try:
                ev = await receive()
            except BaseException as ex:
                items.append({'d': 'recv', 'exc': _xexc(ex)})
                raise
            try:
                items.append({'d': 'recv', 'e': _enc_event(ev)})
            except Exception as ex:     # noqa
                items.append({'d': 'recv', 'e': {'error': repr(ex)[:200]}})
            return ev

        token = _CUR.set(rec)
        try:
            r = await orig(self, scope, recording_receive, recording_send)
            rec['end'] = {'returned': True}
            return r
        except BaseException as ex:
            rec['end'] = {'raised': _xexc(ex)}
            raise
        finally:
            try:
                _CUR.reset(token)
            except ValueError:      # an abandoned coroutine is finalised (GeneratorExit) in another context
                pass
            try:
                rec['patched_end'] = _patched()
            except Exception:     # noqa
                pass
            if _PENDING.pop(id(rec), None) is not None:
                _write(rec)
    return __call__


def flush_pending():
    """sessions the tests abandoned (the app callable never ended): written as they stand, marked unfinished"""
    for rec in list(_PENDING.values()):
        _PENDING.pop(id(rec), None)
        rec['unfinished'] = True
        try:
            rec['patched_end'] = _patched()
        except Exception:     # noqa
            pass
        _write(rec)


# ------------------------------------------------------------------------------------------------
# inside the session
# ------------------------------------------------------------------------------------------------

_ROUTE_KINDS = {'path_not_found': 'miss', 'path_not_found_async': 'miss', 'bad_request': 'badmethod',
                'bad_request_async': 'badmethod', 'method_not_allowed': 'noresp',
                'method_not_allowed_responder_async': 'noresp'}


def _marking(responder, rec):
    items = rec['ev']

    @functools.wraps(responder)
    async def marked(*a, **k):
        items.append({'d': 'resp', 'at': 'enter'})
        try:
            r = await responder(*a, **k)
        except BaseException as ex:
            items.append({'d': 'resp', 'at': 'raise', 'exc': _xexc(ex)})
            raise
        items.append({'d': 'resp', 'at': 'return'})
        return r
    return marked


def _make_get_responder(orig):
    @functools.wraps(orig)
    def _get_responder(self, req):
        rec = _CUR.get()
        if rec is None:
            return orig(self, req)
        try:
            out = orig(self, req)
        except BaseException as ex:
            rec['ev'].append({'d': 'route', 'kind': 'raised', 'exc': _xexc(ex)})
            raise
        try:
            responder, params, resource, uri_template = out
            fn = responder.func if isinstance(responder, functools.partial) else responder
            name, mod = getattr(fn, '__name__', None), getattr(fn, '__module__', None)
            kind = 'ok'
            if mod == 'falcon.responders' and name in _ROUTE_KINDS:
                kind = _ROUTE_KINDS[name]
            elif resource is None:
                kind = 'sink'
            rec['ev'].append({'d': 'route', 'kind': kind, 'fn': enc(name), 'mod': enc(mod), 'tmpl': enc(uri_template),
                              'routed': resource is not None,
                              'params': sorted(str(k) for k in params) if type(params) is dict else None})
            if callable(responder):
                out = (_marking(responder, rec), params, resource, uri_template)
        except Exception as ex:     # noqa
            rec['ev'].append({'d': 'route', 'kind': 'error', 'what': repr(ex)[:200]})
        return out
    return _get_responder


def _make_handle_exception(orig):
    @functools.wraps(orig)
    async def _handle_exception(self, req, resp, ex, params, ws=None):
        rec = _CUR.get()
        if rec is None or ws is None:
            return await orig(self, req, resp, ex, params, ws=ws)
        item = {'d': 'hx', 'exc': _xexc(ex), 'handler': None}
        try:
            h = self._find_error_handler(ex)         # a pure lookup in the registered handlers
            if h is not None:
                fn = getattr(h, '__func__', h)
                item['handler'] = {'name': enc(getattr(fn, '__name__', None)), 'mod': enc(getattr(fn, '__module__', None)),
                                   'bound_to_app': getattr(h, '__self__', None) is self}
        except Exception as e2:     # noqa
            item['handler'] = {'error': repr(e2)[:200]}
        rec['ev'].append(item)
        try:
            r = await orig(self, req, resp, ex, params, ws=ws)
        except BaseException as e2:
            rec['ev'].append({'d': 'hxdone', 'handled': None, 'exc': _xexc(e2)})
            raise
        rec['ev'].append({'d': 'hxdone', 'handled': bool(r), 'exc': None})
        return r
    return _handle_exception


def _make_http_handler(orig, via):
    @functools.wraps(orig)
    async def handler(self, req, resp, ex, params, ws=None):
        rec = _CUR.get()
        if rec is not None and ws is not None and not resp:
            rec['ev'].append({'d': 'http', 'via': via, 'status': enc(getattr(ex, 'status_code', None)), 'exc': _tname(ex)})
        return await orig(self, req, resp, ex, params, ws=ws)
    return handler


def _make_cleanup(orig):
    @functools.wraps(orig)
    async def _ws_cleanup_on_error(self, ws):
        rec = _CUR.get()
        if rec is not None:
            item = {'d': 'cleanup'}
            try:
                item['code'] = enc(self.ws_options.error_close_code)
            except Exception:     # noqa
                pass
            rec['ev'].append(item)
        return await orig(self, ws)
    return _ws_cleanup_on_error


# ------------------------------------------------------------------------------------------------
# installation / pytest hooks
# ------------------------------------------------------------------------------------------------

def install():
    if _INSTALLED[0]:
        return
    path = os.environ.get(ENV)
    if not path:
        return
    import falcon
    import falcon.app
    import falcon.asgi
    import falcon.asgi.app
    import falcon.asgi.ws
    import falcon.errors
    import falcon.http_error
    import falcon.http_status
    _ERR.update({'WebSocketDisconnected': falcon.errors.WebSocketDisconnected,
                 'OperationNotAllowed': falcon.errors.OperationNotAllowed,
                 'HTTPError': falcon.http_error.HTTPError, 'HTTPStatus': falcon.http_status.HTTPStatus})
    _FD[0] = os.open(path, os.O_WRONLY | os.O_APPEND | os.O_CREAT, 0o644)
    A, AA, WS = falcon.app.App, falcon.asgi.app.App, falcon.asgi.ws.WebSocket
    for attr in ('accept', 'close', 'send_text', 'send_data', 'send_media', 'receive_text', 'receive_data',
                 'receive_media', '_send', '_receive'):
        _ORIG['WebSocket.' + attr] = WS.__dict__.get(attr)
    AA.__call__ = _make_asgi_call(AA.__call__)
    A._get_responder = _make_get_responder(A._get_responder)
    AA._handle_exception = _make_handle_exception(AA._handle_exception)
    AA._http_status_handler = _make_http_handler(AA._http_status_handler, 'status')
    AA._http_error_handler = _make_http_handler(AA._http_error_handler, 'error')
    AA._ws_cleanup_on_error = _make_cleanup(AA._ws_cleanup_on_error)
    _ORIG['App._handle_websocket'] = AA.__dict__.get('_handle_websocket')
    _INSTALLED[0] = True
    import atexit
    atexit.register(flush_pending)


def pytest_configure(config):
    install()


def pytest_runtest_logstart(nodeid, location):
    _NODE[0] = nodeid


def pytest_sessionfinish(session, exitstatus):
    flush_pending()
