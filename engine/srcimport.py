"""Source-only importer for falcon.

/repo/falcon holds stale, git-ignored cythonized *.so next to every .py; CPython
prefers them, so a plain ``import falcon`` ignores edits to the .py files.  This
finder maps ``falcon[.x.y]`` to ``$FALCON_ROOT/falcon/x/y.py`` (or a package
``__init__.py``) and refuses everything else below ``falcon`` (so the
``falcon.cyutil`` extensions are absent and falcon takes its pure-Python
fallbacks).  Importing this module installs the finder.
"""
import importlib.abc
import importlib.util
import os
import sys

ROOT = os.environ.get('FALCON_ROOT', '/repo')
sys.dont_write_bytecode = True


class SrcOnly(importlib.abc.MetaPathFinder):
    def find_spec(self, name, path=None, target=None):
        if name != 'falcon' and not name.startswith('falcon.'):
            return None
        rel = name.replace('.', '/')
        pkg = os.path.join(ROOT, rel, '__init__.py')
        mod = os.path.join(ROOT, rel + '.py')
        if os.path.isfile(pkg):
            return importlib.util.spec_from_file_location(
                name, pkg, submodule_search_locations=[os.path.dirname(pkg)])
        if os.path.isfile(mod):
            return importlib.util.spec_from_file_location(name, mod)
        raise ModuleNotFoundError(name)


def install():
    if not any(isinstance(f, SrcOnly) for f in sys.meta_path):
        for k in [k for k in sys.modules if k == 'falcon' or k.startswith('falcon.')]:
            del sys.modules[k]
        sys.meta_path.insert(0, SrcOnly())
    import logging
    logging.disable(logging.CRITICAL)


install()
