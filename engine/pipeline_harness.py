"""Harness shared by C03 / C04 (spec/Pipeline.tla, spec/Lifespan.tla, spec/ErrorRender.tla).

It *drives and observes* real falcon applications; it decides nothing about correctness.

  class_table()     real exception classes (a diamond, a class mixing an application base with
                    HTTPNotFound, an HTTPStatus subclass) and their linearisations, handed to TLC
  run_request()     assembles an application from an abstract configuration (component shapes,
                    independent flag, target kind, hook counts, error-handler registrations), runs one
                    request through engine.drivers with a *script* saying what each call site does,
                    and returns the recorded calls and the projection of the response
  run_lifespan()    same for ASGI lifespan handlers
  render_case()     one HTTPError rendered under one Accept header / configuration (ErrorRender)

Every generated component / hook / responder / handler appends one record per call to a shared
list *before* doing what the script says, so the list is the sequence of calls the framework made.
"""
import asyncio
import json
import re
import xml.etree.ElementTree as ET

from .drivers import Req, wsgi_call, asgi_call_async

# ------------------------------------------------------------------------------------------------
# TLC coverage (action lines may carry a parenthesised location suffix the shared parser skips)
# ------------------------------------------------------------------------------------------------

_RE_COV = re.compile(r'^<(\w+) line \d+, col \d+ to line \d+, col \d+ of module \w+(?: \([\d ]+\))?>: (\d+):(\d+)', re.M)


def action_coverage(out):
    """action name -> number of times TLC took it (the `-coverage 1` reports are cumulative: keep the last/largest)."""
    cov = {}
    for m in _RE_COV.finditer(out):
        cov[m.group(1)] = max(cov.get(m.group(1), 0), int(m.group(3)))
    return cov


def require_actions(r, names):
    """Vacuity guard: every named action fired in TLC run r.  Returns the counts."""
    from .core import MachineryError
    cov = action_coverage(r.out)
    missing = [a for a in names if cov.get(a, 0) == 0]
    if missing:
        raise MachineryError('vacuous model run: actions never taken: %s' % missing)
    return {a: cov[a] for a in names}


# ------------------------------------------------------------------------------------------------
# exception classes
# ------------------------------------------------------------------------------------------------

_CLASSES = None

STATUS = {'HTTPError': 422, 'HTTPStatus': 203, 'HTTPNotFound': 404, 'AppX': 404, 'StSub': 207, 'HTTPRouteNotFound': 404,
          'HTTPMix': 422}
OWN_VARY = ('HTTPNotFound', 'AppX', 'StSub')     # classes whose instances carry a Vary header of their own
TAG_TYPE = 'application/x-verif-tag'
SET_STATUS_BASE = 460          # Pipeline!SetStatus(h) = 460 + h
HANDLER_ERR_STATUS = 409       # Pipeline!HandlerErrStatus
HANDLER_ST_STATUS = 203        # Pipeline!HandlerStStatus


def classes():
    """name -> real class.  Built once, after falcon was imported from source."""
    global _CLASSES
    if _CLASSES is None:
        import falcon

        class AppA(Exception):
            pass

        class AppB(AppA):
            pass

        class AppC(AppA):
            pass

        class AppD(AppB, AppC):       # diamond
            pass

        class AppX(AppA, falcon.HTTPNotFound):     # application base first, HTTP error second
            pass

        class StSub(falcon.HTTPStatus):
            pass

        class BadStr(Exception):          # str() of it raises (a message template applied to mismatching args)
            def __str__(self):
                return '%d items in %s' % self.args

        class NonStr(Exception):          # __str__ returns a non-string: str() raises TypeError
            def __str__(self):
                return 42

        class BadRepr(Exception):         # repr() of it raises
            def __repr__(self):
                raise ValueError('no repr for you')

        # hierarchies with mixins (C04): a base that is in type(ex).__mro__ but not on the __base__ chain
        class Retryable(Exception):       # the mixin
            pass

        class ServiceError(Exception):
            pass

        class Overloaded(ServiceError, Retryable):        # mixin second: __base__ chain Overloaded, ServiceError, Exception
            pass

        class MixFirst(Retryable, AppB):                  # mixin first: AppB, AppA are off the __base__ chain
            pass

        class HTTPMix(falcon.HTTPError, Retryable):       # an HTTP error carrying the mixin
            pass

        _CLASSES = {'Retryable': Retryable, 'ServiceError': ServiceError, 'Overloaded': Overloaded, 'MixFirst': MixFirst,
                    'HTTPMix': HTTPMix}
        _CLASSES = {**_CLASSES, 'Exception': Exception, 'HTTPError': falcon.HTTPError, 'HTTPStatus': falcon.HTTPStatus,
                    'HTTPNotFound': falcon.HTTPNotFound, 'AppA': AppA, 'AppB': AppB, 'AppC': AppC, 'AppD': AppD,
                    'AppX': AppX, 'StSub': StSub, 'HTTPRouteNotFound': falcon.HTTPRouteNotFound,
                    'BadStr': BadStr, 'NonStr': NonStr, 'BadRepr': BadRepr}
    return _CLASSES


def class_table():
    """The table TLC reads (CLASSES_FILE): linearisation of every class as computed by CPython (C3 is
    trusted), without BaseException/object, and the status instances of the class carry."""
    cl = classes()
    names = {v: k for k, v in cl.items()}
    mro = {}
    for name, c in cl.items():
        lin = []
        for b in c.__mro__:
            if b in (BaseException, object):
                continue
            if b not in names:
                raise RuntimeError('class %r in the linearisation of %s is unknown to the class table' % (b, name))
            lin.append(names[b])
        mro[name] = lin
    return {'mro': mro, 'status': {n: STATUS.get(n, 0) for n in cl}, 'vary': {n: n in OWN_VARY for n in cl}}


# adversarial strings for titles / descriptions / link targets (C04 faithfulness)
POOL = ['plain', 'quote " and \\ backslash', "apos ' <tag> & amp; ]]>", 'astral \U0001F600 é中', 'tab\there',
        'line\nfeed', ' lead and trail ', '{"json": [1, 2]}', '</title><x>', 'nbsp  sep', '%41 percent+plus',
        'ctl \x7f del']
HREFS = ['http://example.com/doc', 'http://exämple.com/ü?q=a b&r="x"', '/rel/path<>', 'urn:x:%zz', "a'b"]


class Fields:
    """Field values of one HTTP error instance, drawn from the pools."""

    def __init__(self, rng=None, idx=0, xml_safe=False):
        if rng is None:
            self.title_tail, self.description, self.code, self.href, self.href_text = 'plain', None, None, None, None
        else:
            pool = [s for s in POOL if xml_expressible(s)] if xml_safe else POOL
            self.title_tail = rng.choice(pool)
            self.description = rng.choice(pool + [None, None, ''])
            self.code = rng.choice([None, None, 0, 7, -3, 123456789])
            self.href = rng.choice(HREFS + [None, None])
            self.href_text = rng.choice(pool + [None]) if self.href else None


def make_exc(name, idx, fields=None, status=None, own_vary=None):
    """An instance of class `name` whose title/text/header carry `idx`, so that the response shows
    which instance was rendered."""
    import falcon
    cl = classes()
    f = fields or Fields()
    c = cl[name]
    own = own_headers(name, idx)
    if own_vary:
        own = dict(own)
        own['Vary'] = own_vary
    if issubclass(c, falcon.HTTPError):
        kw = dict(title='E%d|%s' % (idx, f.title_tail), description=f.description, headers=own,
                  href=f.href, href_text=f.href_text, code=f.code)
        if issubclass(c, falcon.HTTPNotFound):
            return c(**kw)
        return c(status or STATUS['HTTPError'], **kw)
    if issubclass(c, falcon.HTTPStatus):
        return c(status or STATUS[name], own, 's%d|%s' % (idx, f.title_tail))
    return c('boom %d' % idx)


VARY_PREFIX = ('Accept-Encoding-', 'Accept-Language-', 'X-Accept-', 'V')


def vary_token(kind, idx):
    """Text of the Vary token call idx appends ('m') or the exception raised by call idx carries ('e').  Most
    contain "accept" without being Accept."""
    return '%s%s%d' % (VARY_PREFIX[idx % 4], kind, idx)


def own_headers(name, idx):
    """Headers an HTTP error / status instance raised by call idx carries: a marker, a list-valued one, and
    (classes in OWN_VARY) a Vary header of its own.  Alternately a dict or a list of pairs."""
    h = {'x-e%d' % idx: 'v%d' % idx, 'x-l%d' % idx: 'a%d, b%d' % (idx, idx)}
    if name in OWN_VARY:
        h['Vary'] = vary_token('e', idx)
    return h if idx % 2 else list(h.items())


def safe_repr(x):
    """repr() that survives objects whose __repr__ / __str__ raise."""
    try:
        return repr(x)
    except Exception:
        return '<%s instance, repr() raised>' % type(x).__name__


def table_name(ex):
    """Name of the nearest class of the table in the linearisation of type(ex)."""
    names = {v: k for k, v in classes().items()}
    for b in type(ex).__mro__:
        if b in names:
            return names[b]
    return '?'


# ------------------------------------------------------------------------------------------------
# recording + script
# ------------------------------------------------------------------------------------------------

class Recorder:
    def __init__(self, plan, render_cls=None, lazy=None, fields_rng=None, attr_seed=0, xml_safe=False):
        self.xml_safe = xml_safe
        self.calls = []
        self.plan = list(plan)          # (act, cls) for successive application call sites
        self.k = 0
        self.render_cls = render_cls    # class the body-rendering site raises, or None
        self.bad_cls = render_cls or 'AppA'   # class raised when an unserialisable handler body is rendered
        self.render_logged = False
        self.lazy = lazy                # callable(site) -> (act, cls) used when the plan is exhausted (leg B)
        self.excs = {}                  # id(exception) -> index of the raising call
        self.keep = []
        self.fields = {}                # call index -> Fields of the HTTP error raised there
        self.fields_rng = fields_rng
        self.attr_seed = attr_seed
        self.wrong = []                 # harness-level anomalies (e.g. a sync twin called under ASGI)
        self.drafts = {}                # handler call index -> (behaviour, attribute) of a draft written before raising

    def log(self, site, c, res=False, ok=False, x=0):
        self.calls.append({'site': site, 'c': c, 'act': 'ret', 'cls': '', 'res': bool(res), 'ok': bool(ok), 'x': x})
        return len(self.calls)

    def choose(self, site):
        if self.k < len(self.plan):
            a = self.plan[self.k]
        elif self.lazy is not None:
            a = self.lazy(site)
        else:
            a = ('ret', '')
        self.k += 1
        return a

    def new_exc(self, name, idx, status=None):
        f = Fields(self.fields_rng, idx, self.xml_safe)
        ex = make_exc(name, idx, f, status)
        self.excs[id(ex)] = idx
        self.keep.append(ex)
        self.fields[idx] = (name, f, ex)
        return ex

    def mark(self, resp, idx):
        """Put the marker of call `idx` on the response through one of text / data / media."""
        attr = 2 if self.render_cls else (idx + self.attr_seed) % 3
        resp.append_header('Vary', vary_token('m', idx))
        if attr == 0:
            resp.text = 'm%d' % idx
        elif attr == 1:
            resp.data = b'm%d' % idx
        else:
            resp.content_type = 'application/json'
            resp.media = {'m': idx}

    def perform(self, site, idx, resp, marks_on_ret=False):
        """Do what the script says at call `idx` (already logged as 'ret')."""
        act, cls = self.choose(site)
        rec = self.calls[idx - 1]
        if act == 'ret':
            if marks_on_ret:
                self.mark(resp, idx)
            return
        if act == 'complete':
            rec['act'] = 'complete'
            self.mark(resp, idx)
            resp.complete = True
            return
        rec['act'], rec['cls'] = 'raise', cls
        self.mark(resp, idx)
        raise self.new_exc(cls, idx)

    def dumps(self, obj):
        """dumps() of the JSON media handler: the body-rendering site."""
        if isinstance(obj, dict) and set(obj) == {'bad'}:
            # what a "setbad" handler left behind: never serialisable.  Only the first failure is a call
            # site of the model; the framework's second rendering attempt fails silently.
            if self.render_logged:
                raise TypeError('still not serialisable')
            cls = self.render_cls or self.bad_cls
        elif isinstance(obj, dict) and set(obj) == {'m'} and self.render_cls and not self.render_logged:
            cls = self.render_cls
        else:
            return json.dumps(obj, ensure_ascii=False)
        self.render_cls, self.render_logged = None, True
        idx = self.log('render', 0)
        self.calls[idx - 1].update(act='raise', cls=cls)
        raise self.new_exc(cls, idx)


SLOT_STYLES = ('plain', 'async_only', 'both')


def slot_styles(idx, variant):
    """How component idx implements each method slot, picked by `variant`: 'plain' (the plain name: a sync
    method on WSGI, a coroutine on ASGI), 'async_only' (only the *_async name) or 'both' (twins: a sync plain
    method and an *_async coroutine).  Odd variants mix styles slot by slot within a component."""
    if not variant & 1:
        return {'req': 'plain', 'rsrc': 'plain', 'resp': 'plain'}
    v = (variant >> 1) + 5 * idx
    return {'req': SLOT_STYLES[v % 3], 'rsrc': SLOT_STYLES[(v // 3 + 1) % 3], 'resp': SLOT_STYLES[(v // 9 + 2) % 3]}


def _component(rec, idx, shape, asgi, styles):
    """A middleware component implementing exactly the method slots in `shape`, each slot in its own style.
    On ASGI a slot runs its *_async method if there is one, else the plain coroutine; on WSGI the plain method
    runs and *_async is ignored (so an 'async_only' slot is given as twins there)."""
    d = {}
    if asgi:
        async def process_request(self, req, resp):
            rec.perform('req', rec.log('req', idx), resp)

        async def process_resource(self, req, resp, resource, params):
            rec.perform('rsrc', rec.log('rsrc', idx, res=resource is not None), resp)

        async def process_response(self, req, resp, resource, req_succeeded):
            rec.perform('resp', rec.log('resp', idx, res=resource is not None, ok=req_succeeded), resp)

        def wrong(name):
            def f(self, *a):
                rec.wrong.append('sync %s of component %d called by the ASGI app' % (name, idx))
            return f
        for key, fn in (('req', process_request), ('rsrc', process_resource), ('resp', process_response)):
            if key in shape:
                st = styles[key]
                d[fn.__name__ + ('' if st == 'plain' else '_async')] = fn
                if st == 'both':
                    d[fn.__name__] = wrong(fn.__name__)
    else:
        def process_request(self, req, resp):
            rec.perform('req', rec.log('req', idx), resp)

        def process_resource(self, req, resp, resource, params):
            rec.perform('rsrc', rec.log('rsrc', idx, res=resource is not None), resp)

        def process_response(self, req, resp, resource, req_succeeded):
            rec.perform('resp', rec.log('resp', idx, res=resource is not None, ok=req_succeeded), resp)

        async def wrong_async(self, *a):
            rec.wrong.append('async twin of component %d called by the WSGI app' % idx)
        for key, fn in (('req', process_request), ('rsrc', process_resource), ('resp', process_response)):
            if key in shape:
                d[fn.__name__] = fn
                if styles[key] != 'plain':
                    d[fn.__name__ + '_async'] = wrong_async
    return type('Comp%d' % idx, (), d)()


def hook_style(nb, na, variant):
    """How the nb before / na after hooks are attached, picked by `variant`: how many of each are class-level
    decorators (the outermost ones), whether the decorated class inherits its responders from a base class,
    whether the route uses a suffixed responder, and the decorator stackings at both levels."""
    v = variant >> 6
    cb = (v >> 2) % (nb + 1)
    ca = (v >> 4) % (na + 1)
    return {'inherit': bool(v & 1), 'suffix': bool(v & 2), 'cb': cb, 'ca': ca,
            'mpat': hook_pattern(nb - cb, na - ca, variant >> 3), 'cpat': hook_pattern(cb, ca, variant >> 5)}


def slot_style(nb, na, variant, slot):
    """hook_style for a responder slot given by the specification (MC_PipelineSlot: method, suffix spelling,
    number of class-level before / after hooks); the decorator stackings and inheritance stay picked by `variant`."""
    v = variant >> 6
    cb, ca = slot['cb'], slot['ca']
    return {'inherit': bool(v & 1), 'suffix': ''.join(slot['sfx']) or False, 'method': slot['method'], 'cb': cb, 'ca': ca,
            'mpat': hook_pattern(nb - cb, na - ca, variant >> 3), 'cpat': hook_pattern(cb, ca, variant >> 5)}


MW_FORMS = ('single', 'list', 'tuple', 'generator', 'iter', 'map', 'dict_values')
SLOT_METHODS = ('GET', 'POST', 'PUT', 'DELETE', 'PATCH')
SLOT_SUFFIXES = ('', 'sfx', 'item_history', 'byId', 'v2', 'A_b_3', 'x_1_Y_z', '_lead', '9')


def mw_container(comps, form):
    """The components `comps` in the container form `form` of App(middleware=..) / add_middleware(..): an environment
    dimension the specification is independent of (a bare component only stands for a group of one)."""
    comps = list(comps)
    if form == 'single' and len(comps) == 1:
        return comps[0]
    if form == 'tuple':
        return tuple(comps)
    if form == 'generator':
        return (c for c in comps)
    if form == 'iter':
        return iter(comps)
    if form == 'map':
        return map(lambda c: c, comps)
    if form == 'dict_values':
        return {'k%d' % j: c for j, c in enumerate(comps)}.values()
    return comps


def mw_forms(seed, ngroups):
    """(cors_enable, container form per registration group), drawn from `seed` (replayable from the case)."""
    import random
    r = random.Random(seed * 7919 + 11)
    return r.random() < 0.5, [r.choice(MW_FORMS) for _ in range(ngroups)]


def _resource(rec, nb, na, asgi, style):
    """A resource whose GET responder carries nb before hooks and na after hooks.  Documented stacking:
    before hooks run outermost decorator first, after hooks innermost first, and class-level hooks wrap
    every responder of the decorated class - inherited or defined by it, suffixed or not - outside the
    method-level ones.  Hook ids are expected execution positions: before 1..cb class-level (top down),
    cb+1..nb method-level (top down); after 1..na-ca method-level (from the responder outwards), then the
    class-level ones.  Returns (resource, suffix or None)."""
    import falcon

    def before(j):
        if asgi:
            async def hook(req, resp, resource, params):
                rec.perform('before', rec.log('before', j, res=resource is not None), resp)
        else:
            def hook(req, resp, resource, params):
                rec.perform('before', rec.log('before', j, res=resource is not None), resp)
        return hook

    def after(j):
        if asgi:
            async def hook(req, resp, resource):
                rec.perform('after', rec.log('after', j, res=resource is not None), resp)
        else:
            def hook(req, resp, resource):
                rec.perform('after', rec.log('after', j, res=resource is not None), resp)
        return hook

    if asgi:
        async def on_get(self, req, resp):
            rec.perform('responder', rec.log('responder', 0, res=True), resp, marks_on_ret=True)
    else:
        def on_get(self, req, resp):
            rec.perform('responder', rec.log('responder', 0, res=True), resp, marks_on_ret=True)

    cb, ca = style['cb'], style['ca']
    # method level: decorators are applied innermost first, i.e. the pattern is walked from its end
    fn = on_get
    bj, aj = nb, 1
    for ch in reversed(style['mpat']):
        if ch == 'b':
            fn = falcon.before(before(bj))(fn)
            bj -= 1
        else:
            fn = falcon.after(after(aj))(fn)
            aj += 1
    # the responder slot (C03, MC_PipelineSlot!RespName): on_<method>[_<suffix>]; style['suffix'] may spell the suffix
    sfx = style['suffix'] if isinstance(style['suffix'], str) else ('sfx' if style['suffix'] else None)
    base = 'on_' + style.get('method', 'GET').lower()
    name = base + '_' + sfx if sfx else base
    members = {name: fn}
    if sfx:
        async def other_async(self, req, resp):
            rec.wrong.append('another responder than the routed slot was called')

        def other(self, req, resp):
            rec.wrong.append('another responder than the routed slot was called')
        members[base] = other_async if asgi else other
        if 'method' in style:       # decoys next to the slot: a longer and a shorter spelling of the suffix
            for decoy in (name + '_x', name[:-1]):
                if decoy != base:
                    members[decoy] = other_async if asgi else other
    if style['inherit']:
        cls = type('Res', (type('Base', (), members),), {})      # the responders are inherited, not redefined
    else:
        cls = type('Res', (), members)
    # class level: same walk; these wrap outside everything applied above
    bj, aj = cb, na - ca + 1
    for ch in reversed(style['cpat']):
        if ch == 'b':
            cls = falcon.before(before(bj))(cls)
            bj -= 1
        else:
            cls = falcon.after(after(aj))(cls)
            aj += 1
    return cls(), sfx


DRAFT_ATTRS = ('text', 'data', 'media')


def _handler(rec, o, beh, asgi):
    """Error handler object number o (the number of the registration that first used it; 1..3 are the
    framework's defaults).  The same object may be registered for several classes."""
    import falcon

    def draft(resp, idx):
        """Write the body 'h<idx>' through one of text / data / media; returns which."""
        attr = (idx + rec.attr_seed + o) % 3
        if attr == 0:
            resp.text = 'h%d' % idx
        elif attr == 1:
            resp.data = b'h%d' % idx
        else:
            resp.content_type = 'application/json'
            resp.media = {'h': idx}
        return DRAFT_ATTRS[attr]

    def body(req, resp, ex, params):
        idx = rec.log('handler', o, x=rec.excs.get(id(ex), 0))     # 0: not an exception the harness raised
        r = rec.calls[idx - 1]
        r['cls'] = table_name(ex)
        if beh == 'set':
            resp.status = SET_STATUS_BASE + o
            draft(resp, idx)
        elif beh == 'setbad':
            resp.status = SET_STATUS_BASE + o
            resp.content_type = 'application/json'
            resp.media = {'bad': idx}
        elif beh == 'noop':
            pass
        elif beh == 'http':
            r['act'] = 'raise'
            raise rec.new_exc('HTTPError', idx, HANDLER_ERR_STATUS)
        elif beh == 'status':
            r['act'] = 'raise'
            raise rec.new_exc('HTTPStatus', idx, HANDLER_ST_STATUS)
        elif beh == 'draftst':          # drafts a body, then raises a text-less status (Pipeline!DraftStatus)
            r['act'] = 'raise'
            rec.drafts[idx] = (beh, draft(resp, idx))
            if o % 2 == 0:
                ex2 = falcon.HTTPFound('/moved/%d' % idx, dict(own_headers('HTTPStatus', idx)))
            else:
                ex2 = falcon.HTTPStatus(202, dict(own_headers('HTTPStatus', idx)))
            raise ex2
        elif beh == 'drafterr':         # drafts a body, then raises an HTTPError
            r['act'] = 'raise'
            rec.drafts[idx] = (beh, draft(resp, idx))
            raise rec.new_exc('HTTPError', idx, HANDLER_ERR_STATUS)
        elif beh == 'other':
            r['act'] = 'raise'
            raise RuntimeError('handler %d fails' % o)
        else:
            raise ValueError(beh)

    if asgi:
        async def handler(req, resp, ex, params):
            body(req, resp, ex, params)
    else:
        def handler(req, resp, ex, params):
            body(req, resp, ex, params)
    return handler


_LOOP = None


def loop():
    global _LOOP
    if _LOOP is None or _LOOP.is_closed():
        _LOOP = asyncio.new_event_loop()
    return _LOOP


def run_async(coro):
    return loop().run_until_complete(coro)


def hook_pattern(nb, na, variant):
    """One of the stackings of nb before and na after decorators, picked by `variant`."""
    pats = ['']
    for _ in range(nb + na):
        pats = [p + ch for p in pats for ch in 'ba']
    pats = sorted(p for p in pats if p.count('b') == nb and p.count('a') == na)
    return pats[variant % len(pats)]


class _Cur:
    """What the generated components hold: always the recorder of the request being served."""

    def __init__(self):
        object.__setattr__(self, 'cur', None)

    def __getattr__(self, name):
        return getattr(object.__getattribute__(self, 'cur'), name)


class Session:
    """One real application object serving several requests; error handlers may be registered between them.
    cfg: dict(shape=[[..]..], indep, target, nb, na).  Registration number h of a handler is 4 + its position
    in the session's registration history (1..3 are the framework's defaults)."""

    def __init__(self, cfg, *, asgi=False, variant=0):
        import falcon
        import falcon.asgi
        import falcon.media
        self.cfg, self.asgi, self.variant = cfg, asgi, variant
        self.rec = rec = _Cur()
        self.nregs = 0
        self.objs = {}
        comps = [_component(rec, j + 1, set(s), asgi, slot_styles(j + 1, variant)) for j, s in enumerate(cfg['shape'])]
        App = falcon.asgi.App if asgi else falcon.App
        self.nreq = 0
        self.mw_pending = []
        if cfg.get('mwh'):
            # C03 (MC_PipelineSlot): the stack is registered in groups - group 1 through the constructor, every
            # further group by one add_middleware call before request `before`; container forms and cors_enable
            # are rotated (mw_forms), the specification does not depend on them
            cors, forms = mw_forms(cfg.get('mwseed', variant), len(cfg['mwh']))
            self.mw_env = {'cors_enable': cors, 'forms': forms}
            groups, at = [], 0
            for g, form in zip(cfg['mwh'], forms):
                groups.append((g['before'], form, comps[at:at + g['n']]))
                at += g['n']
            if at != len(comps):
                raise RuntimeError('registration groups %r do not add up to the stack %r' % (cfg['mwh'], cfg['shape']))
            _, form, first = groups[0]
            first = (None if variant & 1 else []) if not first and form == 'single' else mw_container(first, form)
            app = App(middleware=first, independent_middleware=cfg['indep'], cors_enable=cors)
            self.mw_pending = groups[1:]
        elif variant & 2:
            app = App(independent_middleware=cfg['indep'])
            for c in comps:
                app.add_middleware(c)
        else:
            app = App(middleware=comps, independent_middleware=cfg['indep'])
        app.resp_options.media_handlers[falcon.MEDIA_JSON] = falcon.media.JSONHandler(
            dumps=lambda o: rec.dumps(o) if object.__getattribute__(rec, 'cur') else json.dumps(o, ensure_ascii=False))
        app.resp_options.media_handlers[TAG_TYPE] = TagHandler(asgi)
        self.app = app
        self.routed = False
        if variant & 4:
            self._routes()

    def _routes(self):
        if self.routed:
            return
        self.routed = True
        cfg, rec, asgi, app = self.cfg, self.rec, self.asgi, self.app
        if cfg['target'] == 'routed':
            style = (slot_style(cfg['nb'], cfg['na'], self.variant, cfg['slot']) if cfg.get('slot')
                     else hook_style(cfg['nb'], cfg['na'], self.variant))
            res, sfx = _resource(rec, cfg['nb'], cfg['na'], asgi, style)
            if sfx:
                app.add_route('/t', res, suffix=sfx)
            else:
                app.add_route('/t', res)
        elif cfg['target'] == 'sink':
            if asgi:
                async def sink(req, resp, **kw):
                    rec.perform('sink', rec.log('sink', 0), resp, marks_on_ret=True)
            else:
                def sink(req, resp, **kw):
                    rec.perform('sink', rec.log('sink', 0), resp, marks_on_ret=True)
            app.add_sink(sink, '/t')
        else:
            app.add_route('/other', _resource(rec, 0, 0, asgi, hook_style(0, 0, 0))[0])

    def add_handlers(self, regs):
        """regs: [{cls, beh, obj}] - obj is the number (4, 5, ..) of the registration that first used the handler
        object; a registration whose obj is its own number creates the object.  A run of registrations of one
        object is made as one tuple registration when the variant says so."""
        cl = classes()
        k = 0
        while k < len(regs):
            r = regs[k]
            num = 3 + self.nregs + 1
            o = r.get('obj', num)
            if o not in self.objs:
                if o != num:
                    raise RuntimeError('registration %d refers to unknown handler object %d' % (num, o))
                self.objs[o] = _handler(self.rec, o, r['beh'], self.asgi)
            run = [r]
            while self.variant & 16 and k + len(run) < len(regs) and regs[k + len(run)].get('obj') == o:
                run.append(regs[k + len(run)])
            if len(run) > 1 or self.variant & 32:       # tuple form (also for a single class)
                self.app.add_error_handler(tuple(cl[x['cls']] for x in run), self.objs[o])
            else:
                self.app.add_error_handler(cl[r['cls']], self.objs[o])
            self.nregs += len(run)
            k += len(run)
        return self

    def request(self, plan, *, render_cls=None, lazy=None, accept=None, fields_rng=None, xml_safe=False, bad_cls=None):
        self._routes()
        self.nreq += 1
        while self.mw_pending and self.mw_pending[0][0] <= self.nreq:      # add_middleware calls due before this request
            _, form, comps = self.mw_pending.pop(0)
            self.app.add_middleware(mw_container(comps, form))
        rec = Recorder(plan, render_cls, lazy, fields_rng, attr_seed=self.variant, xml_safe=xml_safe)
        if bad_cls:
            rec.bad_cls = bad_cls
        object.__setattr__(self.rec, 'cur', rec)
        method = (self.cfg.get('slot') or {}).get('method', 'GET')
        req = Req(method, '/t', headers=[('Accept', accept)] if accept is not None else [])
        if self.asgi:
            res = run_async(asgi_call_async(self.app, req))
        else:
            res = wsgi_call(self.app, req)
        return rec, res


def run_request(cfg, plan, *, asgi=False, render_cls=None, lazy=None, accept=None, variant=0, fields_rng=None,
                xml_safe=False, bad_cls=None):
    """One request on a fresh application.  cfg as for Session plus reg=[{cls, beh}..] (custom registrations).
    Returns (rec, result, app)."""
    s = Session(cfg, asgi=asgi, variant=variant).add_handlers(cfg['reg'])
    rec, res = s.request(plan, render_cls=render_cls, lazy=lazy, accept=accept, fields_rng=fields_rng, xml_safe=xml_safe,
                         bad_cls=bad_cls)
    return rec, res, s.app


# ------------------------------------------------------------------------------------------------
# projection of the response (trusted decoders: json.loads, xml.etree, bytes.decode)
# ------------------------------------------------------------------------------------------------

def decode_doc(body, ctype):
    """Error document -> dict, by the representation's own trusted parser.  None if not a document."""
    ct = (ctype or '').split(';')[0].strip().lower()
    if ct == TAG_TYPE and body.startswith(b'TAG'):
        body, ct = body[3:], 'application/json'
    if ct.endswith('json'):
        try:
            d = json.loads(body.decode('utf-8'))
        except ValueError:
            return None
        return d if isinstance(d, dict) else None
    if ct.endswith('xml'):
        try:
            root = ET.fromstring(body)
        except ET.ParseError:
            return None
        if root.tag != 'error':
            return None
        d = {}
        for ch in root:
            if ch.tag == 'link':
                d['link'] = {g.tag: (g.text or '') for g in ch}
            elif ch.tag == 'code':
                d['code'] = int(ch.text)
            else:
                d[ch.tag] = ch.text or ''
        return d
    return None


def project(res):
    """Server-visible response -> the abstract response of Pipeline.tla."""
    out = {'escaped': res.exc is not None, 'status': res.status or 0, 'body': {'k': 'none', 'id': 0}, 'hdrs': [],
           'vary': [], 'doc': None, 'ctype': res.header('content-type')}
    if res.exc is not None:
        return out
    hm = res.header_map()
    # an exception's own headers are on the response iff every one of them is there with its value
    out['hdrs'] = sorted(int(k[3:]) for k, v in res.headers if re.fullmatch(r'x-e\d+', k) and v == 'v' + k[3:]
                         and hm.get('x-l' + k[3:]) == ['a%s, b%s' % (k[3:], k[3:])])
    toks = [t.strip().lower() for v in res.header_all('vary') for t in v.split(',') if t.strip()]
    # the field value split on commas, tokens compared case-insensitively: 0 = Accept itself
    vary = set()
    for t in toks:
        m = re.fullmatch(r'(?:accept-encoding-|accept-language-|x-accept-|v)([me])(\d+)', t)
        if t == 'accept':
            vary.add(0)
        elif m:
            vary.add(int(m.group(2)) if m.group(1) == 'm' else -int(m.group(2)))
    out['vary'] = sorted(vary)
    b = res.body
    m = re.fullmatch(rb'([mhs])(\d+)(\|.*)?', b, re.S)
    if not b:
        pass
    elif m and (m.group(1) == b's' or not m.group(3)):
        out['body'] = {'k': {b'm': 'mark', b'h': 'hset', b's': 'stext'}[m.group(1)], 'id': int(m.group(2))}
    else:
        d = decode_doc(b, out['ctype'])
        if d is not None and set(d) == {'m'} and isinstance(d['m'], int):
            out['body'] = {'k': 'mark', 'id': d['m']}
        elif d is not None and set(d) == {'h'} and isinstance(d['h'], int):
            out['body'] = {'k': 'hset', 'id': d['h']}
        elif d is not None and isinstance(d.get('title'), str):
            out['doc'] = d
            t = re.match(r'E(\d+)\|', d['title'])
            if t:
                out['body'] = {'k': 'err', 'id': int(t.group(1))}
            elif d == {'title': '500 Internal Server Error'}:
                out['body'] = {'k': 'e500', 'id': 0}
            elif d == {'title': '404 Not Found'}:          # the framework's own HTTPNotFound (no route matched)
                out['body'] = {'k': 'err', 'id': 0}
            else:
                out['body'] = {'k': 'unknown', 'id': 0}
        else:
            out['body'] = {'k': 'unknown', 'id': 0}
    return out


def expected_doc(ex):
    """What a faithful encoding of the error must decode to: the error object's public attributes."""
    d = {'title': ex.title}
    if ex.description is not None:
        d['description'] = ex.description
    if ex.code is not None:
        d['code'] = ex.code
    if ex.link is not None:
        d['link'] = dict(ex.link)
    return d


def xml_expressible(s):
    """XML 1.0 cannot carry C0 controls, and a parser normalises CR: such strings are outside what the XML
    representation can express (DESIGN 7, expressibility guard)."""
    return s is None or not re.search('[\x00-\x08\x0b\x0c\x0d\x0e-\x1f￾￿]', s)


# ------------------------------------------------------------------------------------------------
# lifespan
# ------------------------------------------------------------------------------------------------

def run_lifespan(hs0, cycles, plan, *, with_request_method=0, add_via_list=False, form_seed=None):
    """ONE real falcon.asgi.App taken through several lifespan cycles.
    hs0: lifespan methods (subsets of {'startup','shutdown'}) of the initial components;
    cycles: [{'adds': [shape..] components added before this cycle, 'shutdown': the server sends lifespan.shutdown}];
    plan: 'ok'/'raise' for successive handler calls over the whole history.
    Returns one (calls, events, exc) triple per cycle."""
    import falcon.asgi
    cur = {'calls': None}
    k = [0]
    count = [0]

    def act(site, j):
        cur['calls'].append({'site': site, 'c': j, 'act': 'ok'})
        a = plan[k[0]] if k[0] < len(plan) else 'ok'
        k[0] += 1
        if a == 'raise':
            cur['calls'][-1]['act'] = 'raise'
            raise RuntimeError('%s %d fails' % (site, j))

    def component(s):
        count[0] += 1
        j = count[0]
        d = {}
        if 'startup' in s:
            async def process_startup(self, scope, event):
                act('startup', j)
            d['process_startup'] = process_startup
        if 'shutdown' in s:
            async def process_shutdown(self, scope, event):
                act('shutdown', j)
            d['process_shutdown'] = process_shutdown
        if (with_request_method >> (j - 1)) & 1 or not d:
            async def process_request(self, req, resp):
                pass
            d['process_request'] = process_request
        return type('L%d' % j, (), d)()

    if form_seed is None:
        app = falcon.asgi.App(middleware=[component(s) for s in hs0])
    else:
        # C03: the container form of the constructor argument and of every add_middleware call, and cors_enable,
        # rotate under the history (Lifespan!AddMiddlewareSeq receives the sequence; the form is environment)
        import random
        frng = random.Random(form_seed)
        app = falcon.asgi.App(middleware=mw_container([component(s) for s in hs0], frng.choice(MW_FORMS)),
                              cors_enable=frng.random() < 0.5)
    out = []
    for cy in cycles:
        comps = [component(s) for s in cy['adds']]
        if comps and form_seed is not None:
            # the calls the specification made (cy['groups']: sizes), else a random split into calls
            sizes = list(cy.get('groups') or [])
            left = len(comps) - sum(sizes)
            while left > 0:
                sizes.append(frng.randint(1, left))
                left -= sizes[-1]
            at = 0
            for n in sizes:
                app.add_middleware(mw_container(comps[at:at + n], frng.choice(MW_FORMS)))
                at += n
        elif comps and add_via_list:
            app.add_middleware(comps)
        else:
            for c in comps:
                app.add_middleware(c)
        cur['calls'] = calls = []
        inbox = [{'type': 'lifespan.startup'}] + ([{'type': 'lifespan.shutdown'}] if cy['shutdown'] else [])
        sent = []

        async def main():
            gone = asyncio.Event()

            async def receive():
                await asyncio.sleep(0)
                if inbox:
                    return inbox.pop(0)
                gone.set()
                await asyncio.sleep(3600)       # a real server blocks here; the driver cancels the task

            async def send(ev):
                await asyncio.sleep(0)
                sent.append(ev)

            t = asyncio.ensure_future(app({'type': 'lifespan', 'asgi': {'version': '3.0', 'spec_version': '2.0'}}, receive, send))
            w = asyncio.ensure_future(gone.wait())
            await asyncio.wait([t, w], return_when=asyncio.FIRST_COMPLETED)
            exc = None
            if t.done():
                exc = t.exception()
            else:
                t.cancel()
                try:
                    await t
                except asyncio.CancelledError:
                    pass
            w.cancel()
            return exc

        exc = run_async(main())
        out.append((calls, [e.get('type', '?').replace('lifespan.', '') for e in sent], exc))
    return out


def lifespan_history(b):
    """TLC lifespan history -> (hs0, cycles, plan, expected per-cycle (calls, events))."""
    hs = [sorted(s) for s in b['hs']]
    n0 = len(hs) - len(b['adds'])
    ncyc = len(b['sd'])
    cycles, exp = [], []
    for k in range(1, ncyc + 1):
        mine = [a for a in b['adds'] if a['after'] == k - 1]
        cy = {'adds': [sorted(a['shape']) for a in mine], 'shutdown': b['sd'][k - 1]}
        if mine and 'call' in mine[0]:       # sizes of the add_middleware calls the specification made (AddMiddlewareSeq)
            cy['groups'] = [sum(1 for a in mine if a['call'] == c) for c in sorted({a['call'] for a in mine})]
        cycles.append(cy)
        exp.append(([{'site': c['site'], 'c': c['c'], 'act': c['act']} for c in b['calls'] if c['cyc'] == k],
                    [e['ev'] for e in b['sent'] if e['cyc'] == k]))
    return hs[:n0], cycles, [c['act'] for c in b['calls']], exp


# ------------------------------------------------------------------------------------------------
# error rendering
# ------------------------------------------------------------------------------------------------

class TagHandler:
    """A configured media handler with its own trivially decodable wire format."""

    def __init__(self, asgi):
        self.calls = 0

    def serialize(self, media, content_type):
        self.calls += 1
        return b'TAG' + json.dumps(media, sort_keys=True).encode('utf-8')

    async def serialize_async(self, media, content_type):
        return self.serialize(media, content_type)

    def deserialize(self, stream, content_type, content_length):
        raise NotImplementedError

    async def deserialize_async(self, stream, content_type, content_length):
        raise NotImplementedError


def accept_text(acc):
    """Abstract Accept value of ErrorRender.tla -> header text (None: header absent)."""
    if acc['absent']:
        return None
    if acc['malformed']:
        return acc['raw']
    parts = []
    for r in acc['ranges']:
        s = '%s/%s' % (r['t'], r['s'])
        if ('+json' in s) != (r['sfx'] == 'json') or ('+xml' in s) != (r['sfx'] == 'xml'):
            raise RuntimeError('range %r: suffix flag and text disagree' % (r,))
        s = spell_range(s, r.get('cs', 'lower'))
        if r['q'] != 10:
            s += ';q=%s' % ('0' if r['q'] == 0 else '0.%d' % r['q'])
        parts.append(s)
    return ', '.join(parts)


def spell_range(s, cs):
    """The media range text `s` (lower case) in the spelling `cs` of ErrorRender.tla (Spellings)."""
    if cs == 'lower':
        return s
    if cs == 'upper':
        return s.upper()
    if cs == 'sfx':         # only the structured-syntax suffix (or, without one, the subtype) in upper case
        head, plus, tail = s.rpartition('+')
        if plus:
            return head + plus + tail.upper()
        t, _, sub = s.partition('/')
        return t + '/' + sub.upper()
    if cs == 'mixed':
        return ''.join(ch.upper() if (i == 0 or not s[i - 1].isalnum()) else ch for i, ch in enumerate(s))
    raise RuntimeError('unknown spelling %r' % (cs,))


RETRY_DATE = (2031, 5, 17, 8, 9, 10)        # the datetime passed as retry_after when the constructor gets a date
NO_CTOR = {'kind': 'none', 'n': -1, 'date': False, 'items': [], 'loc': ''}
_SHAPES = {}


def shaped_class(shape):
    """HTTPError subclasses using the documented customisation point to_dict()."""
    import falcon
    if not _SHAPES:
        class Adds(falcon.HTTPError):
            def to_dict(self, obj_type=dict):
                d = super().to_dict(obj_type)
                d['problems'] = ['p1', {'field': 'a', 'why': 'b'}]
                return d

        class Drops(falcon.HTTPError):
            def to_dict(self, obj_type=dict):
                d = super().to_dict(obj_type)
                d.pop('description', None)
                return d

        class Renames(falcon.HTTPError):
            def to_dict(self, obj_type=dict):
                d = super().to_dict(obj_type)
                d['summary'] = d.pop('title')
                return d
        _SHAPES.update(adds=Adds, drops=Drops, renames=Renames)
    return _SHAPES[shape]


def reshape(doc, shape):
    """What the subclass of `shape` makes of a plain error document (the harness knows its own subclasses)."""
    d = dict(doc)
    if shape == 'adds':
        d['problems'] = ['p1', {'field': 'a', 'why': 'b'}]
    elif shape == 'drops':
        d.pop('description', None)
    elif shape == 'renames':
        d['summary'] = d.pop('title')
    return d


def http_date_text():
    """HTTP-date of RETRY_DATE by the standard library (trusted formatter)."""
    import datetime
    import email.utils
    return email.utils.format_datetime(datetime.datetime(*RETRY_DATE, tzinfo=datetime.timezone.utc), usegmt=True)


def ctor_exc(status, ctor, fields, own_vary=None):
    """The falcon error / redirect class with status `status`, constructed from the abstract arguments `ctor`."""
    import datetime
    import falcon
    kw = dict(title='E1|%s' % fields.title_tail, description=fields.description, headers=dict(own_headers('HTTPError', 1)),
              href=fields.href, href_text=fields.href_text, code=fields.code)
    if own_vary:
        kw['headers']['Vary'] = own_vary
    k = ctor['kind']
    if k == 'retry':
        cls = {413: falcon.HTTPContentTooLarge, 429: falcon.HTTPTooManyRequests, 503: falcon.HTTPServiceUnavailable}[status]
        ra = datetime.datetime(*RETRY_DATE) if ctor['date'] else (ctor['n'] if ctor['n'] >= 0 else None)
        return cls(retry_after=ra, **kw)
    if k == 'allow':
        return falcon.HTTPMethodNotAllowed(list(ctor['items']), **kw)
    if k == 'range':
        return falcon.HTTPRangeNotSatisfiable(ctor['n'], **kw)
    if k == 'challenge':
        ch = list(ctor['items']) if ctor['items'] or fields.code is None else None      # empty list or None: no challenge
        return falcon.HTTPUnauthorized(challenges=ch, **kw)
    if k == 'location':
        cls = {301: falcon.HTTPMovedPermanently, 302: falcon.HTTPFound, 303: falcon.HTTPSeeOther,
               307: falcon.HTTPTemporaryRedirect, 308: falcon.HTTPPermanentRedirect}[status]
        return cls(ctor['loc'].replace('<e9>', '\u00e9'), kw['headers'])
    raise ValueError(k)


OWN_NAMES = ('retry-after', 'allow', 'content-range', 'www-authenticate', 'location')


def render_case(accept, xml_on, extra, fields, *, asgi=False, site='responder', not_found=False, own_vary=None,
                shape='plain', ctor=None, status=None):
    """Raise one HTTP error (field values `fields`; `shape`: a to_dict-overriding subclass; `ctor`: a header-bearing
    class of falcon.errors / falcon.redirects built from abstract constructor arguments) at `site` - 'responder',
    'hook' (a before hook), 'mw' (process_request) or 'render' (while the responder's media is serialised) - of an
    app configured with xml_error_serialization = xml_on and the extra media handlers `extra`; the request carries
    the Accept header `accept` (text or None).  Returns (exception, result, handlers)."""
    import falcon
    import falcon.asgi
    import falcon.media
    box = {}

    def mk():
        if ctor and ctor['kind'] != 'none':
            ex = ctor_exc(status, ctor, fields, own_vary)
        elif shape != 'plain':
            h = dict(own_headers('HTTPError', 1))
            if own_vary:
                h['Vary'] = own_vary
            ex = shaped_class(shape)(STATUS['HTTPError'], title='E1|%s' % fields.title_tail, description=fields.description,
                                     headers=h, href=fields.href, href_text=fields.href_text, code=fields.code)
        else:
            ex = make_exc('HTTPNotFound' if not_found else 'HTTPError', 1, fields, own_vary=own_vary)
        box['ex'] = ex
        return ex

    def act(resp):
        if site == 'render':            # the error is raised while the responder's media is serialised
            resp.content_type = falcon.MEDIA_JSON
            resp.media = {'m': 1}
        elif site == 'responder':
            raise mk()

    def dumps(obj):
        if obj == {'m': 1}:
            raise mk()
        return json.dumps(obj, ensure_ascii=False)

    if asgi:
        async def hook(req, resp, resource, params):
            if site == 'hook':
                raise mk()

        class Res:
            @falcon.before(hook)
            async def on_get(self, req, resp):
                act(resp)

        class Mw:
            async def process_request(self, req, resp):
                if site == 'mw':
                    raise mk()
    else:
        def hook(req, resp, resource, params):
            if site == 'hook':
                raise mk()

        class Res:
            @falcon.before(hook)
            def on_get(self, req, resp):
                act(resp)

        class Mw:
            def process_request(self, req, resp):
                if site == 'mw':
                    raise mk()
    app = (falcon.asgi.App if asgi else falcon.App)(middleware=[Mw()])
    app.resp_options.xml_error_serialization = xml_on
    if site == 'render':
        app.resp_options.media_handlers[falcon.MEDIA_JSON] = falcon.media.JSONHandler(dumps=dumps)
    hs = {}
    for mt in extra:
        hs[mt] = TagHandler(asgi)
        app.resp_options.media_handlers[mt] = hs[mt]
    app.add_route('/t', Res())
    req = Req('GET', '/t', headers=[('Accept', accept)] if accept is not None else [])
    res = run_async(asgi_call_async(app, req)) if asgi else wsgi_call(app, req)
    return box.get('ex'), res, hs


def own_observed(res):
    """The constructor-derived headers on the response as [name, value] records; the HTTP-date of RETRY_DATE is
    written "<http-date>" and U+00E9 "<e9>", as in ErrorRender.tla."""
    date = http_date_text()
    return [{'name': k, 'value': '<http-date>' if v == date else v.replace('\u00e9', '<e9>')}
            for k, v in res.headers if k in OWN_NAMES]


# ------------------------------------------------------------------------------------------------
# check-side plumbing shared by checks/c03.py and checks/c04.py: projecting TLC behaviours, comparing
# (never deciding) and routing named clauses to the property that owns them
# ------------------------------------------------------------------------------------------------
import os

from .core import MachineryError, digest

APP_SITES = ('req', 'rsrc', 'before', 'responder', 'sink', 'after', 'resp')


def observable(c):
    return c['site'] != 'notfound' and not (c['site'] == 'handler' and c['c'] <= 3)


def expected_request(q, reg=None):
    """Project one request of a TLC session (spec numbering: every call) onto what an application can see.
    Returns (plan, render class or None, expected visible calls, expected response)."""
    obs, n = {}, 0
    for k, c in enumerate(q['calls'], 1):
        if observable(c):
            n += 1
            obs[k] = n
        else:
            obs[k] = 0
    calls = []
    for k, c in enumerate(q['calls'], 1):
        if obs[k]:
            d = dict(c)
            d['x'] = obs.get(c['x'], 0) if c['site'] == 'handler' else 0
            if c['site'] == 'handler' and reg is not None:
                d['beh'] = reg[c['c'] - 1]['beh']
                d['c'] = reg[c['c'] - 1]['obj']       # the application sees the handler object, not the registration
            calls.append(d)
    body = dict(q['body'])
    if body['k'] in ('mark', 'err', 'stext', 'hset', 'hbad'):
        body['id'] = obs.get(body['id'], 0)
    tok = lambda t: 0 if t == 0 else obs.get(t, 0) if t > 0 else -obs.get(-t, 0)
    final = {'escaped': q['escaped'], 'status': q['status'], 'body': body,
             'hdrs': sorted(set(obs.get(x, 0) for x in q['hdrs']) - {0}), 'vary': sorted(set(tok(t) for t in q['vary'])),
             'renderfail': q['renderfail'], 'fallback': q['fallback']}
    plan = [(c['act'], c['cls']) for c in q['calls'] if c['site'] in APP_SITES]
    render = [c['cls'] for c in q['calls'] if c['site'] == 'render']
    return plan, (render[0] if render else None), calls, final


def expected_from_behaviour(b):
    """TLC session -> (assembly, all custom registrations, [(nregs, plan, render, calls, final) per request])."""
    cfg = {'shape': [sorted(s) for s in b['shape']], 'indep': b['indep'], 'target': b['target'], 'nb': b['nb'],
           'na': b['na']}
    if 'slot' in b:         # MC_PipelineSlot exports: the responder slot and the registration groups of the stack
        cfg['slot'] = {'method': b['slot']['method'], 'sfx': ''.join(b['slot']['sfx']), 'cb': b['slot']['cb'],
                       'ca': b['slot']['ca']}
        cfg['mwh'] = b['mwh']
    return cfg, b['reg'][3:], [(q['nregs'],) + expected_request(q, b['reg']) for q in b['reqs']]


def compare(exp_calls, exp_final, got_calls, got):
    """First difference between the specified and the observed request, as (clause, text) pairs.
    The expected values are TLC's; this only compares."""
    out = []
    for k in range(max(len(exp_calls), len(got_calls))):
        e = exp_calls[k] if k < len(exp_calls) else None
        g = got_calls[k] if k < len(got_calls) else None
        hand = (e and e['site'] == 'handler') or (g and g['site'] == 'handler')
        if g is None:
            out.append(('P4:handler' if hand else 'P3:missing', 'call %d: specified %r, none made' % (k + 1, e)))
            break
        if e is None:
            out.append(('P4:handler' if hand else 'P3:extra', 'call %d: %r made after the specified end' % (k + 1, g)))
            break
        if (e['site'], e['c']) != (g['site'], g['c']):
            out.append(('P4:handler' if hand else 'P3:order', 'call %d: specified %s/%d, made %s/%d'
                        % (k + 1, e['site'], e['c'], g['site'], g['c'])))
            break
        if e['site'] == 'resp' and e['ok'] != g['ok']:
            out.append(('P3:succeeded', 'call %d: process_response of %d got req_succeeded=%r, specified %r'
                        % (k + 1, e['c'], g['ok'], e['ok'])))
            break
        if e['site'] == 'handler' and e['x'] != g['x']:
            out.append(('P4:instance', 'call %d: handler got the exception of call %d, specified %d' % (k + 1, g['x'], e['x'])))
            break
        if (e['act'], e['cls']) != (g['act'], g['cls']):
            raise MachineryError('script misaligned at call %d: specified %r, harness did %r' % (k + 1, e, g))
        if e['site'] != 'handler' and e['res'] != g['res']:
            out.append(('D:resource', 'call %d: resource argument present=%r, specified %r' % (k + 1, g['res'], e['res'])))
    if any(c.startswith('P') for c, _ in out):
        return out
    f = exp_final
    if f['escaped'] != got['escaped']:
        out.append(('P4:escaped', 'escaped=%r, specified %r' % (got['escaped'], f['escaped'])))
        return out
    if f['escaped']:
        return out
    rf = f['fallback']      # rendering the error handler's response failed too: what is sent then is model detail
    if f['status'] != got['status']:
        out.append(('P4:status', 'status %r, specified %r' % (got['status'], f['status'])))
    elif not rf and f['body'] != got['body']:
        out.append(('P4:stale' if got['body']['k'] == 'mark' else 'P4:body', 'body %r, specified %r' % (got['body'], f['body'])))
    elif not rf and f['body']['k'] in ('err', 'stext') and f['body']['id'] and f['body']['id'] not in got['hdrs']:
        out.append(('P4:ownheaders', 'headers of the rendered exception %d missing: %r' % (f['body']['id'], got['hdrs'])))
    elif not set(f['vary']) <= set(got['vary']):
        out.append(('P4:vary', 'Vary tokens %r lack %r (0: Accept, k: set by call k, -k: carried by the exception of call k)'
                    % (got['vary'], sorted(set(f['vary']) - set(got['vary'])))))
    else:
        if rf and f['body'] != got['body']:
            out.append(('D:renderfallback', 'body after two failed renderings %r, model %r' % (got['body'], f['body'])))
        if f['hdrs'] != got['hdrs']:
            out.append(('D:headers', 'exception headers %r, model %r' % (got['hdrs'], f['hdrs'])))
        if f['vary'] != got['vary']:
            out.append(('D:vary', 'Vary tokens %r, model %r' % (got['vary'], f['vary'])))
    return out


ACCEPTS = [None, 'application/json', 'text/xml', 'application/xml;q=0.9, application/json;q=0.5', '*/*',
           'application/vnd.verif+json', TAG_TYPE, TAG_TYPE + ', application/json;q=0.5']


def faithful(rec, res, got):
    """C04 law Decode(body) = the error's public attributes, for the instance the response claims to render."""
    b = got['body']
    if got['escaped'] or b['k'] not in ('err', 'stext') or not b['id'] or b['id'] not in rec.fields:
        return []
    name, f, ex = rec.fields[b['id']]
    if b['k'] == 'stext':
        want = (ex.text or '').encode('utf-8')
        return [] if res.body == want else [('P4:faithful', 'HTTPStatus text sent as %r, raised with %r' % (res.body, want))]
    want = expected_doc(ex)
    if got['doc'] != want:
        return [('P4:faithful', 'error document decodes to %r, the error holds %r' % (got['doc'], want))]
    return []


def report(ctx, own, clause, case, what, seen_other, signature=None):
    if clause.startswith(own):
        ctx.violation(clause, case, what, signature=signature)
    elif clause.startswith('D:'):
        ctx.detail(clause, case, what)
    elif clause.startswith('H:'):
        raise MachineryError('harness/judge disagreement %s: %s' % (clause, what))
    else:
        # a clause of the sibling property (C03 <-> C04): noted once per clause, alarmed by ./check of that property
        if clause not in seen_other:
            seen_other[clause] = 0
            print('NOTE clause %s belongs to the sibling check: %s' % (clause, str(what)[:200]))
        seen_other[clause] += 1


def nontrivial_c03(cfg, calls):
    if any(c['act'] != 'ret' for c in calls if c['site'] != 'handler'):
        return True
    for m in ('req', 'rsrc', 'resp'):
        if sum(1 for s in cfg['shape'] if m in s) >= 2:
            return True
    return False


def write_classes(ctx):
    path = os.path.join(ctx.scratch, 'classes.json')
    with open(path, 'w') as f:
        json.dump(class_table(), f)
    return {'CLASSES_FILE': path}


# TLC reports an action that merely renames a base action under the base action's name
PIPE_ACTIONS = ['Start', 'XReqCall', 'XRsrcCall', 'XBeforeCall', 'XResponder', 'XAfterCall', 'XRespCall', 'RenderCall',
                'XRenderFail', 'ReqSkip', 'ReqDone', 'Route', 'RsrcSkip', 'RsrcDone', 'BeforeDone', 'NotFound',
                'AfterDone', 'RespDone', 'HandleCall']
WRONG = {'status_keeps_draft': 'HandlerRaisedErrorIsRendered', 'render_drops_body': 'DefaultRendering', 'mro_reversed': 'MostSpecificWins', 'first_reg_wins': 'LatestRegistrationWins',
         'queue_before_call': 'ResponseOnce', 'resp_forward': 'ResponseBottomUp', 'no_reset': 'StaleBodyDiscarded'}


def wrong_designs(ctx, env, names):
    """Vacuity control: each deliberately wrong design must violate its invariant in the model.  The tiny TLC
    runs are independent and started side by side (start-up time dominates them)."""
    from concurrent.futures import ThreadPoolExecutor

    def one(w):
        e = dict(env)
        e['WRONG'] = w
        return ctx.tlc('MC_Pipeline', 'MC_PipelineW.cfg', env=e, workers=1, timeout=300, must_hold=False, count=False)

    with ThreadPoolExecutor(max_workers=len(names)) as ex:
        results = list(ex.map(one, names))
    for w, r in zip(names, results):
        if r.violated != WRONG[w]:
            raise MachineryError('wrong design %s: expected invariant %s to fail, TLC reported %r' % (w, WRONG[w], r.violated))
    ctx.extra.setdefault('wrong_designs_rejected', []).extend(names)


def _own0(own):
    return own if isinstance(own, str) else own[0]


def replay_behaviours(ctx, own, behaviours, both, seen_other, label, rich=False):
    """Leg A: every TLC session is run on a real application object (registrations and requests in the
    session's order) and each request is compared with what the specification says."""
    import random
    n = 0
    for b in behaviours:
        cfg, regs, reqs = expected_from_behaviour(b)
        h = int(digest(b), 16)
        for asgi in ((False, True) if both else ((h & 1) == 1,)):
            variant = (h >> 1) % 4096
            accept = ACCEPTS[(h >> 13) % len(ACCEPTS)] if rich else None
            xml = bool(accept and accept.split(';')[0].endswith('xml'))
            frng = random.Random(h) if rich else None
            sess = Session(cfg, asgi=asgi, variant=variant)
            case = {'leg': 'A', 'iface': 'asgi' if asgi else 'wsgi', 'variant': variant, 'cfg': cfg, 'reg': regs,
                    'accept': accept, 'fields_seed': h if rich else None,
                    'reqs': [{'nregs': q[0], 'plan': q[1], 'render': q[2]} for q in reqs]}
            for ri, (nregs, plan, render, exp_calls, exp_final) in enumerate(reqs):
                sess.add_handlers(regs[sess.nregs:nregs])
                rec, res = sess.request(plan, render_cls=render, accept=accept, fields_rng=frng, xml_safe=xml)
                got = project(res)
                if exp_final['renderfail']:
                    ctx.extra['render_failures_replayed'] = ctx.extra.get('render_failures_replayed', 0) + 1
                if exp_final['fallback']:
                    ctx.extra['render_fallbacks_replayed'] = ctx.extra.get('render_fallbacks_replayed', 0) + 1
                q = {'reg': regs[:nregs], 'calls': exp_calls}
                ctx.case(case, nontrivial=(nontrivial_c03(cfg, exp_calls) if _own0(own) == 'P3' else nontrivial_c04(q) or ri > 0),
                         key=digest([cfg, regs, [x[:3] for x in reqs[:ri + 1]], asgi]))
                n += 1
                full = dict(case, request=ri + 1, spec_calls=exp_calls, spec_final=exp_final, got_calls=rec.calls, got_final=got)
                if rec.wrong or res.errors:
                    ctx.violation(_own0(own) + ':protocol', full, 'harness anomaly %r / protocol errors %r' % (rec.wrong, res.errors))
                    break
                diffs = compare(exp_calls, exp_final, rec.calls, got) + faithful(rec, res, got)
                for clause, what in diffs:
                    report(ctx, own, clause, full, 'request %d: %s' % (ri + 1, what), seen_other)
                if any(c.startswith('P') for c, _ in diffs):
                    break
    ctx.traces_validated += n
    ctx.progress('%s: %d replays' % (label, n))
    return n


def nontrivial_c04(b):
    """C04 rule: the raised class has >= 2 registered ancestors, or the handler itself raised."""
    mro = class_table()['mro']
    regd = set(r['cls'] for r in b['reg'])
    for c in b['calls']:
        if c['site'] == 'handler':
            if c['act'] == 'raise' or sum(1 for a in mro.get(c['cls'], []) if a in regd) >= 2:
                return True
    return False


def random_trace(rng, *, asgi, ncomp, maxhooks, regs, classes, maxfaults=5, render_p=0.2, rich=False, nreqs=1, slots=False):
    """Leg B: a seeded random session on one real application object.  `regs` is the registration history;
    with nreqs > 1 it is cut at random points and the later parts are registered between the requests.
    Returns (trace for PipelineTrace, case, [(rec, res, got) per request])."""
    shapes = [sorted(rng.sample(['req', 'rsrc', 'resp'], rng.randint(1, 3))) for _ in range(ncomp)]
    target = rng.choice(['routed', 'routed', 'sink', 'unrouted'])
    cfg = {'shape': shapes, 'indep': rng.random() < 0.5, 'target': target,
           'nb': rng.randint(0, maxhooks) if target == 'routed' else 0,
           'na': rng.randint(0, maxhooks) if target == 'routed' else 0}
    variant = rng.randrange(4096)
    if slots:       # C03: a random responder slot and a random registration of the stack (all before the first request)
        if target == 'routed':
            cfg['slot'] = {'method': rng.choice(SLOT_METHODS), 'sfx': rng.choice(SLOT_SUFFIXES),
                           'cb': rng.randint(0, cfg['nb']), 'ca': rng.randint(0, cfg['na'])}
        sizes, left = [], ncomp
        while left:
            sizes.append(rng.randint(0 if not sizes else 1, left))
            left -= sizes[-1]
        cfg['mwh'] = [{'n': n, 'before': 0 if j == 0 else 1} for j, n in enumerate(sizes)]
        cfg['mwseed'] = rng.randrange(1 << 30)
    regs = [dict(r, obj=r.get('obj', 4 + j)) for j, r in enumerate(regs)]
    accept = rng.choice(ACCEPTS) if rich else None
    xml = bool(accept and accept.split(';')[0].endswith('xml'))
    cuts = sorted(rng.randint(0, len(regs)) for _ in range(nreqs - 1)) + [len(regs)]
    if nreqs > 1 and rng.random() < 0.5:
        cuts[0] = 0                     # the first request often sees only the defaults
    sess = Session(cfg, asgi=asgi, variant=variant)
    trace = dict({k: v for k, v in cfg.items() if k not in ('slot', 'mwh', 'mwseed')}, reg=regs, reqs=[])
    case = {'leg': 'B', 'iface': 'asgi' if asgi else 'wsgi', 'variant': variant, 'cfg': cfg, 'reg': regs, 'accept': accept,
            'fields_seed': None, 'reqs': []}
    runs = []
    repeat = None
    for nregs in cuts:
        p = rng.choice([0.05, 0.15, 0.3, 0.5])
        left = [rng.randint(1, maxfaults)]

        def lazy(site):
            if left[0] > 0 and rng.random() < p:
                left[0] -= 1
                if site in ('req', 'rsrc') and rng.random() < 0.3:
                    return ('complete', '')
                # later requests often raise what an earlier one raised (handler lookup may remember)
                return ('raise', repeat if repeat and rng.random() < 0.6 else rng.choice(classes))
            return ('ret', '')

        render = rng.choice(classes) if rng.random() < render_p else None
        bad = rng.choice(classes)
        sess.add_handlers(regs[sess.nregs:nregs])
        rec, res = sess.request([], render_cls=render, lazy=lazy, accept=accept, fields_rng=rng if rich else None,
                                xml_safe=xml, bad_cls=bad)
        got = project(res)
        raised = [c['cls'] for c in rec.calls if c['act'] == 'raise' and c['site'] != 'handler']
        repeat = raised[0] if raised else repeat
        trace['reqs'].append({'nregs': nregs, 'ev': rec.calls,
                              'final': {k: got[k] for k in ('escaped', 'status', 'body', 'hdrs', 'vary')}})
        case['reqs'].append({'nregs': nregs, 'plan': [(c['act'], c['cls']) for c in rec.calls if c['site'] in APP_SITES],
                             'render': next((c['cls'] for c in rec.calls if c['site'] == 'render'), None)})
        runs.append((rec, res, got))
    return trace, case, runs


C3REGS = [{'cls': 'AppB', 'beh': 'set'}, {'cls': 'AppC', 'beh': 'other'}, {'cls': 'AppD', 'beh': 'http'},
          {'cls': 'StSub', 'beh': 'noop'}]
ALL_CLASSES = ['Exception', 'HTTPError', 'HTTPStatus', 'HTTPNotFound', 'AppA', 'AppB', 'AppC', 'AppD', 'AppX', 'StSub',
               'BadStr', 'NonStr', 'BadRepr', 'Retryable', 'ServiceError', 'Overloaded', 'MixFirst', 'HTTPMix']


def judge_traces(ctx, own, env, items, seen_other):
    """items: list of (trace, case).  Distinct traces are judged by PipelineTrace."""
    uniq = {}
    for t, c in items:
        uniq.setdefault(digest(t), (t, c))
    items = list(uniq.values())
    verdicts = ctx.judge('PipelineTrace', [t for t, _ in items], env=env, workers=8, timeout=1500, chunk=5000)
    for (t, c), v in zip(items, verdicts):
        if v != 'ok':
            clause = v.split('@')[0]
            report(ctx, own, clause, dict(c, trace=t), 'trace rejected by PipelineTrace at (request-1)*1000+event %s' % v,
                   seen_other)
    return len(items)




def replay_request(ctx, case):
    """--replay of one recorded session case: run it again and let PipelineTrace judge it."""
    env = write_classes(ctx)
    import random
    frng = random.Random(case['fields_seed']) if case.get('fields_seed') is not None else None
    accept = case.get('accept')
    xml = bool(accept and accept.split(';')[0].endswith('xml'))
    sess = Session(case['cfg'], asgi=case['iface'] == 'asgi', variant=case.get('variant', 0))
    trace = dict(case['cfg'], reg=case['reg'], reqs=[])
    for q in case['reqs']:
        sess.add_handlers(case['reg'][sess.nregs:q['nregs']])
        rec, res = sess.request([tuple(p) for p in q['plan']], render_cls=q.get('render'), accept=accept, fields_rng=frng,
                                xml_safe=xml)
        got = project(res)
        print('request with %d custom registrations:' % q['nregs'])
        for c in rec.calls:
            print('  ', c)
        print('  final:', got, 'exc:', safe_repr(res.exc), '\n  body:', res.body)
        trace['reqs'].append({'nregs': q['nregs'], 'ev': rec.calls,
                              'final': {k: got[k] for k in ('escaped', 'status', 'body', 'hdrs', 'vary')}})
        for clause, what in faithful(rec, res, got):
            print(clause, what)
            ctx.violation(clause, case, what)
    v = ctx.judge('PipelineTrace', [trace], env=env, workers=1)[0]
    print('verdict (request*1000 + event):', v)
    if v != 'ok' and not v.startswith('D:'):
        ctx.violation(v.split('@')[0], case, 'trace rejected at %s' % v)
